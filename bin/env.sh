# sourced by every script: offline Go environment with the cached go1.26.5 toolchain
export GOFLAGS=-mod=mod GOPROXY=off GOSUMDB=off GOTOOLCHAIN=local CGO_ENABLED=0
GO_TC=/root/go/pkg/mod/golang.org/toolchain@v0.0.1-go1.26.5.linux-amd64
if [ ! -x "$GO_TC/bin/go" ]; then
  for d in /root/go/pkg/mod/golang.org/toolchain@v0.0.1-go1.26.8.linux-amd64 /opt/veriftools/go1.26.8; do
    [ -x "$d/bin/go" ] && GO_TC=$d && break
  done
fi
export PATH=$GO_TC/bin:$PATH
