package local

// Replay for finding F3 (property C01): inMemoryBlock.Put hands Buffer.IntoWriter a *bytes.Buffer that
// aliases the block's backing array (bytes.NewBuffer(ib.data[off:off])). For reader-backed buffers
// IntoWriter uses io.Copy, which calls (*bytes.Buffer).ReadFrom; ReadFrom grows the buffer by
// bytes.MinRead (512) before every Read and REALLOCATES when less than 512 bytes of capacity remain. From
// then on the data goes into the new allocation instead of the block: the upload is acknowledged, but the
// tail of the object in the block is whatever was there before. Failing obligation:
//   blobstore/local::(*inMemoryBlock).Put$1:PRE:IntoWriter@b.IntoWriter(bytes.NewBuffer(ib.data[offsetBytes:offsetBytes]))#1:writer-in-place

import (
	"bytes"
	"crypto/sha256"
	"encoding/hex"
	"io"
	"testing"

	remoteexecution "github.com/bazelbuild/remote-apis/build/bazel/remote/execution/v2"
	"github.com/buildbarn/bb-storage/pkg/blobstore/buffer"
	"github.com/buildbarn/bb-storage/pkg/digest"
)

// f3ShortReader delivers its data in pieces of at most max bytes, like a network stream does.
type f3ShortReader struct {
	data []byte
	max  int
}

func (r *f3ShortReader) Read(p []byte) (int, error) {
	if len(r.data) == 0 {
		return 0, io.EOF
	}
	n := len(p)
	if n > r.max {
		n = r.max
	}
	if n > len(r.data) {
		n = len(r.data)
	}
	copy(p, r.data[:n])
	r.data = r.data[n:]
	return n, nil
}
func (r *f3ShortReader) Close() error { return nil }

func TestFindingF3InMemoryBlockLosesTail(t *testing.T) {
	block, _, err := NewInMemoryBlockAllocator(1000).NewBlock()
	if err != nil {
		t.Fatal(err)
	}
	// 500 bytes of filler, then a 400 byte object: it ends 100 bytes before the end of the block.
	filler := bytes.Repeat([]byte{'f'}, 500)
	if _, err := block.Put(500)(buffer.NewValidatedBufferFromByteSlice(filler))(); err != nil {
		t.Fatal(err)
	}
	data := bytes.Repeat([]byte{'D'}, 400)
	h := sha256.Sum256(data)
	d := digest.MustNewDigest("", remoteexecution.DigestFunction_SHA256, hex.EncodeToString(h[:]), 400)
	b := buffer.NewCASBufferFromReader(d, &f3ShortReader{data: data, max: 300}, buffer.UserProvided)
	off, err := block.Put(400)(b)()
	if err != nil {
		t.Fatalf("upload failed: %v", err)
	}
	got, err := block.Get(d, off, 400, func(bool) {}).ToByteSlice(1000)
	if err != nil {
		t.Fatal(err)
	}
	if !bytes.Equal(got, data) {
		i := 0
		for i < len(got) && got[i] == data[i] {
			i++
		}
		t.Fatalf("C01 VIOLATED: upload was acknowledged, but the block holds different bytes from position %d on (%q...)", i, got[i:i+8])
	}
}
