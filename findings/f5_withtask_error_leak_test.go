package buffer_test

// Replay for finding F5 (property C04): validatedReaderBuffer.WithTask. This is the buffer the local store
// hands out for an object read from a block; its ReadAtCloser holds a reference on the block. The store's
// refresh path is
//     b1, b2 := b.CloneStream()
//     return b1.WithTask(func() error { ... putWriter(b2) ...; finalizePut ... })
// WithTask runs the task in the foreground. If the task fails (the refresh copy cannot be finalized: I/O error,
// block quarantined meanwhile, store closed for writing), WithTask returns an error buffer and drops the handle
// it was called on without giving it up: the reader is never closed, the block reference is never released,
// and the block's space never returns to the allocator. Failing obligation:
//   blobstore/buffer::(*validatedReaderBuffer).WithTask:POST:handle-returned-or-given-up
// Run: sh /tmp/seedtools/runtest.sh /repo pkg/blobstore/buffer /verif/findings/f5_withtask_error_leak_test.go TestF5

import (
	"errors"
	"strings"
	"testing"

	"github.com/buildbarn/bb-storage/pkg/blobstore/buffer"
)

type f5ReadAtCloser struct {
	*strings.Reader
	closed *int
}

func (r f5ReadAtCloser) Close() error { *r.closed++; return nil }

func TestF5FailedTaskStillReleasesReader(t *testing.T) {
	closed := 0
	b := buffer.NewValidatedBufferFromReaderAt(f5ReadAtCloser{strings.NewReader("hello"), &closed}, 5)

	// what flatBlobAccess.Get does on its refresh path
	b1, b2 := b.CloneStream()
	result := b1.WithTask(func() error {
		b2.Discard() // the copy consumed its handle ...
		return errors.New("failed to finalize the refreshed copy") // ... but could not be committed
	})

	// the caller consumes what it got back
	if _, err := result.ToByteSlice(100); err == nil {
		t.Fatal("expected the task's error")
	}
	if closed != 1 {
		t.Fatalf("the underlying reader was closed %d times, want 1: the block reference is leaked", closed)
	}
}
