package local

// Replay for finding F2 (property C04): hierarchicalCASBlobAccess.Get, refresh path. The buffer obtained
// from the getter is neither consumed nor discarded when LocationBlobMap.Put() fails afterwards (the flat
// variant discards it). With block-device backed blocks that buffer holds a block reference, so the block's
// space is never returned to the allocator. Failing obligation:
//   blobstore/local::(*hierarchicalCASBlobAccess).Get:LINEAR:leak:LocationBlobGetter result@getter(blobDigest)#4

import (
	"context"
	"io"
	"sync"
	"testing"

	remoteexecution "github.com/bazelbuild/remote-apis/build/bazel/remote/execution/v2"
	"github.com/buildbarn/bb-storage/pkg/blobstore/buffer"
	"github.com/buildbarn/bb-storage/pkg/digest"
	"google.golang.org/grpc/codes"
	"google.golang.org/grpc/status"
)

type f2Closer struct {
	io.Reader
	closed *int
}

func (c f2Closer) Close() error { *c.closed++; return nil }

type f2KLM struct{}

func (f2KLM) Get(key Key) (Location, error) {
	return Location{BlockIndex: 0, OffsetBytes: 0, SizeBytes: 5}, nil
}
func (f2KLM) Put(key Key, location Location) error { return nil }

type f2LBM struct{ closed *int }

func (m f2LBM) Get(location Location) (LocationBlobGetter, bool) {
	return func(d digest.Digest) buffer.Buffer {
		// what a block-device backed block hands out: a buffer whose source must be closed
		return buffer.NewCASBufferFromReader(d, f2Closer{Reader: &f2Zero{n: 5}, closed: m.closed}, buffer.BackendProvided(func(bool) {}))
	}, true // needs refresh
}

func (f2LBM) Put(sizeBytes int64) (LocationBlobPutWriter, error) {
	return nil, status.Error(codes.Unavailable, "No unused blocks available")
}

type f2Zero struct{ n int }

func (z *f2Zero) Read(p []byte) (int, error) {
	if z.n == 0 {
		return 0, io.EOF
	}
	n := len(p)
	if n > z.n {
		n = z.n
	}
	for i := 0; i < n; i++ {
		p[i] = 0
	}
	z.n -= n
	return n, nil
}

func TestFindingF2HierarchicalGetLeaksBuffer(t *testing.T) {
	closed := 0
	var lock sync.RWMutex
	ba := NewHierarchicalCASBlobAccess(f2KLM{}, f2LBM{closed: &closed}, &lock, nil)
	d := digest.MustNewDigest("a", remoteexecution.DigestFunction_SHA256, "8855508aade16ec573d21e6a485dfd0a7624085c1a14b5ecdd6485de0c6839a4", 5)
	_, err := ba.Get(context.Background(), d).ToByteSlice(100)
	if status.Code(err) != codes.Unavailable {
		t.Fatalf("expected the allocation failure to be reported, got %v", err)
	}
	if closed != 1 {
		t.Fatalf("C04 VIOLATED: the buffer obtained from the getter was closed %d times after Get() failed (expected exactly once): its block reference stays pinned", closed)
	}
}
