package local

// Replay for finding F1 (property C01): flatBlobAccess.GetFromComposite, path "parent does not need a
// refresh": the parent's Location is looked up under one lock hold, the lock is dropped while the slicer
// runs, and the child index entries are created under a second lock hold from the Location of the first.
// Location.BlockIndex is relative to the front of the block list, so a block rotation in between makes the
// child entries point into another block. Failing obligation:
//   blobstore/local::(*flatBlobAccess).GetFromComposite:PRE:Put@ba.keyLocationMap.Put(sliceKeys[i],Location{#1:committed

import (
	"bytes"
	"context"
	"crypto/sha256"
	"encoding/hex"
	"sync"
	"testing"

	remoteexecution "github.com/bazelbuild/remote-apis/build/bazel/remote/execution/v2"
	"github.com/buildbarn/bb-storage/pkg/blobstore/buffer"
	"github.com/buildbarn/bb-storage/pkg/blobstore/slicing"
	"github.com/buildbarn/bb-storage/pkg/digest"
)

type f1Logger struct{ t *testing.T }

func (l f1Logger) Log(err error) { l.t.Logf("error logger: %v", err) }

func f1Digest(data []byte) digest.Digest {
	h := sha256.Sum256(data)
	return digest.MustNewDigest("", remoteexecution.DigestFunction_SHA256, hex.EncodeToString(h[:]), int64(len(data)))
}

// f1Slicer consumes the parent, lets another upload rotate the block list, and designates the first 10
// bytes of the parent as the child.
type f1Slicer struct {
	t        *testing.T
	during   func()
	childLen int64
}

func (s *f1Slicer) Slice(b buffer.Buffer, childDigest digest.Digest) (buffer.Buffer, []slicing.BlobSlice) {
	data, err := b.ToByteSlice(1 << 20)
	if err != nil {
		s.t.Fatalf("reading parent: %v", err)
	}
	s.during()
	return buffer.NewValidatedBufferFromByteSlice(data[:s.childLen]), []slicing.BlobSlice{
		{Digest: childDigest, OffsetBytes: 0, SizeBytes: s.childLen},
	}
}

func TestFindingF1CompositeStaleBlockIndex(t *testing.T) {
	const blockSize = 100
	var lock sync.RWMutex
	blockList := NewVolatileBlockList(NewInMemoryBlockAllocator(blockSize))
	lbm := NewOldCurrentNewLocationBlobMap(blockList, NewImmutableBlockListGrowthPolicy(1, 1), f1Logger{t}, "f1", blockSize, 1, 1, 0)
	klm := NewHashingKeyLocationMap(NewInMemoryLocationRecordArray(101, lbm), 101, 0x1234, 8, 16, "f1")
	ba := NewFlatBlobAccess(klm, lbm, digest.KeyWithoutInstance, &lock, "f1", nil)
	ctx := context.Background()

	put := func(fill byte) digest.Digest {
		data := bytes.Repeat([]byte{fill}, blockSize)
		d := f1Digest(data)
		if err := ba.Put(ctx, d, buffer.NewValidatedBufferFromByteSlice(data)); err != nil {
			t.Fatalf("Put(%c): %v", fill, err)
		}
		return d
	}
	// Steady state: one old, one current, one new block, each full.
	put('a')
	put('b')
	parentData := bytes.Repeat([]byte{'P'}, blockSize)
	parentDigest := f1Digest(parentData)
	if err := ba.Put(ctx, parentDigest, buffer.NewValidatedBufferFromByteSlice(parentData)); err != nil {
		t.Fatal(err)
	}
	childData := parentData[:10]
	childDigest := f1Digest(childData)

	slicer := &f1Slicer{t: t, childLen: 10, during: func() {
		// An unrelated upload while the composite read has dropped the lock: needs a fresh block,
		// which rotates the oldest block out and shifts every relative block index by one.
		put('X')
	}}
	got, err := ba.GetFromComposite(ctx, parentDigest, childDigest, slicer).ToByteSlice(1 << 20)
	if err != nil || !bytes.Equal(got, childData) {
		t.Fatalf("composite read itself: %q %v", got, err)
	}
	// The child is now indexed. Reading it must give the child's bytes or NOT_FOUND, never other bytes.
	again, err := ba.Get(ctx, childDigest).ToByteSlice(1 << 20)
	if err == nil && !bytes.Equal(again, childData) {
		t.Fatalf("C01 VIOLATED: Get(child) returned %q, which are bytes of another object (expected %q or NOT_FOUND)", again, childData)
	}
	t.Logf("Get(child) after rotation: %q, %v", again, err)
}
