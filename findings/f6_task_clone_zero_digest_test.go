package buffer_test

// Replay for finding F6 (property C15): casBufferWithBackgroundTask.decorateBuffer. A buffer with a background
// task that is cloned (CloneCopy / CloneStream) yields clones that carry the task but neither the digest nor the
// source of the original: decorateBuffer fills in only `base` and `task`. Asking such a clone for its size
// (GetSizeBytes -> digest.GetSizeBytes on the zero Digest) panics with "index out of range", and WithTask /
// applyErrorHandler / CloneStream on it would hand the zero digest and a nil integrity callback to the
// validators. Failing obligation:
//   blobstore/buffer::(*casBufferWithBackgroundTask).decorateBuffer:POST:clone-is-a-complete-buffer/1
// Run: sh /tmp/seedtools/runtest.sh /repo pkg/blobstore/buffer /verif/findings/f6_task_clone_zero_digest_test.go TestF6

import (
	"io"
	"strings"
	"testing"

	remoteexecution "github.com/bazelbuild/remote-apis/build/bazel/remote/execution/v2"
	"github.com/buildbarn/bb-storage/pkg/blobstore/buffer"
	"github.com/buildbarn/bb-storage/pkg/digest"
)

func TestF6CloneOfBufferWithTaskKeepsWorking(t *testing.T) {
	d := digest.MustNewDigest("hello", remoteexecution.DigestFunction_SHA256,
		"2cf24dba5fb0a30e26e83b2ac5b9e29e1b161e5c1fa7425e73043362938b9824", 5)
	b := buffer.NewCASBufferFromReader(d, io.NopCloser(strings.NewReader("hello")), buffer.UserProvided).
		WithTask(func() error { return nil })
	b1, b2 := b.CloneCopy(100)
	defer b2.Discard()
	defer func() {
		if r := recover(); r != nil {
			t.Fatalf("GetSizeBytes on a clone of a buffer with a background task panicked: %v", r)
		}
	}()
	n, err := b1.GetSizeBytes()
	if err != nil || n != 5 {
		t.Fatalf("GetSizeBytes on the clone: got (%d, %v), want (5, nil)", n, err)
	}
	b1.Discard()
}
