package blobstore

// Replay for finding F4 (property C18): authorizingBlobAccess.Put. When the put authorizer refuses the
// instance name, Put returns the authorizer's error without releasing the buffer it was given. BlobAccess.Put
// owns its buffer (every other early return in the repository discards it), so the stream behind the buffer
// is never closed. Failing obligation:
//   blobstore::(*authorizingBlobAccess).Put:LINEAR:leak:parameter b result@entry
// Run: sh /tmp/seedtools/runtest.sh /repo pkg/blobstore /verif/findings/f4_authorizing_put_leak_test.go TestF4

import (
	"context"
	"strings"
	"testing"

	remoteexecution "github.com/bazelbuild/remote-apis/build/bazel/remote/execution/v2"
	"github.com/buildbarn/bb-storage/pkg/auth"
	"github.com/buildbarn/bb-storage/pkg/blobstore/buffer"
	"github.com/buildbarn/bb-storage/pkg/digest"
	"google.golang.org/grpc/codes"
	"google.golang.org/grpc/status"
)

type f4Closer struct {
	*strings.Reader
	closed *int
}

func (c f4Closer) Close() error { *c.closed++; return nil }

func TestF4RefusedUploadReleasesBuffer(t *testing.T) {
	deny := auth.NewStaticAuthorizer(func(digest.InstanceName) bool { return false })
	allow := auth.NewStaticAuthorizer(func(digest.InstanceName) bool { return true })
	// the backend is never reached: nil would panic if it were
	ba := NewAuthorizingBlobAccess(nil, allow, deny, allow)

	d := digest.MustNewDigest("hello", remoteexecution.DigestFunction_SHA256,
		"2cf24dba5fb0a30e26e83b2ac5b9e29e1b161e5c1fa7425e73043362938b9824", 5)
	closed := 0
	b := buffer.NewCASBufferFromReader(d, f4Closer{strings.NewReader("hello"), &closed}, buffer.UserProvided)

	err := ba.Put(context.Background(), d, b)
	if status.Code(err) != codes.PermissionDenied {
		t.Fatalf("expected PERMISSION_DENIED, got %v", err)
	}
	if closed != 1 {
		t.Fatalf("the refused upload's buffer was not released: source closed %d times, want 1", closed)
	}
}
