package grpcservers

// Replay for finding F7 (property C14): byteStreamServer.writeZstd. For identity uploads the first WriteRequest
// goes through setRequest(), which rejects a write_offset other than 0. For zstd uploads the first request is
// never checked: the reader starts with nextOffset = len(request.Data) whatever request.WriteOffset says, so a
// client whose first message claims to start at offset 7 (i.e. which skipped the beginning of its stream) has
// its object stored as long as later offsets continue from len(first data). ByteStream requires the first
// write_offset of a new resource to be 0. Failing obligation:
//   blobstore/grpcservers::(*byteStreamServer).writeZstd:POST:upload-starts-at-zero
// Run: sh /tmp/seedtools/runtest.sh /repo pkg/blobstore/grpcservers /verif/findings/f7_zstd_write_first_offset_test.go TestF7

import (
	"context"
	"crypto/sha256"
	"encoding/hex"
	"fmt"
	"io"
	"testing"

	"github.com/buildbarn/bb-storage/pkg/blobstore"
	"github.com/buildbarn/bb-storage/pkg/blobstore/buffer"
	"github.com/buildbarn/bb-storage/pkg/digest"
	bb_zstd "github.com/buildbarn/bb-storage/pkg/zstd"
	"github.com/klauspost/compress/zstd"

	"google.golang.org/genproto/googleapis/bytestream"
	"google.golang.org/grpc/codes"
	"google.golang.org/grpc/metadata"
	"google.golang.org/grpc/status"
)

type f7Backend struct {
	blobstore.BlobAccess
	stored int
}

func (ba *f7Backend) Put(ctx context.Context, d digest.Digest, b buffer.Buffer) error {
	if _, err := b.ToByteSlice(1 << 20); err != nil {
		return err
	}
	ba.stored++
	return nil
}

type f7Stream struct {
	requests []*bytestream.WriteRequest
	response *bytestream.WriteResponse
}

func (s *f7Stream) Recv() (*bytestream.WriteRequest, error) {
	if len(s.requests) == 0 {
		return nil, io.EOF
	}
	r := s.requests[0]
	s.requests = s.requests[1:]
	return r, nil
}

func (s *f7Stream) SendAndClose(r *bytestream.WriteResponse) error { s.response = r; return nil }
func (f7Stream) SetHeader(metadata.MD) error                      { return nil }
func (f7Stream) SendHeader(metadata.MD) error                     { return nil }
func (f7Stream) SetTrailer(metadata.MD)                           {}
func (f7Stream) Context() context.Context                         { return context.Background() }
func (f7Stream) SendMsg(m interface{}) error                      { return nil }
func (f7Stream) RecvMsg(m interface{}) error                      { return nil }

func TestF7ZstdUploadMustStartAtOffsetZero(t *testing.T) {
	payload := []byte("The quick brown fox jumps over the lazy dog")
	enc, _ := zstd.NewWriter(nil)
	compressed := enc.EncodeAll(payload, nil)
	sum := sha256.Sum256(payload)
	resourceName := fmt.Sprintf("instance/uploads/7de747e0-ab6f-4d83-90d3-0ff2e5ca1b8d/compressed-blobs/zstd/%s/%d",
		hex.EncodeToString(sum[:]), len(payload))

	run := func(firstOffset int64) (error, int) {
		backend := &f7Backend{}
		server := NewByteStreamServer(backend, 1<<16, bb_zstd.NewUnboundedPool(nil, nil))
		half := len(compressed) / 2
		stream := &f7Stream{requests: []*bytestream.WriteRequest{
			{ResourceName: resourceName, WriteOffset: firstOffset, Data: compressed[:half]},
			{WriteOffset: int64(half), Data: compressed[half:], FinishWrite: true},
		}}
		return server.Write(stream), backend.stored
	}

	if err, stored := run(0); err != nil || stored != 1 {
		t.Fatalf("well-formed zstd upload: err=%v stored=%d", err, stored)
	}
	err, stored := run(7)
	if stored != 0 {
		t.Errorf("an upload whose first request claims write_offset 7 was stored")
	}
	if status.Code(err) != codes.InvalidArgument {
		t.Errorf("expected INVALID_ARGUMENT for a first write_offset of 7, got %v", err)
	}
}
