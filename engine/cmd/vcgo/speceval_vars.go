package main

import (
	"go/types"

	"golang.org/x/tools/go/ssa"
)

// specVarType is the static type of the parameter or local variable a
// contract names (nil when the function has none of that name).
func specVarType(fn *ssa.Function, name string) types.Type {
	for _, p := range fn.Params {
		if p.Name() == name {
			return p.Type()
		}
	}
	for _, b := range fn.Blocks {
		for _, in := range b.Instrs {
			if a, ok := in.(*ssa.Alloc); ok && a.Comment == name {
				return a.Type().(*types.Pointer).Elem()
			}
		}
	}
	for _, a := range fn.Locals {
		if a.Comment == name {
			return a.Type().(*types.Pointer).Elem()
		}
	}
	return nil
}

// specExprType is the static type of a contract expression made of a variable
// name and field selections (x, x.f, x.f.g; pointers are followed). nil when
// it cannot be told.
func specExprType(fn *ssa.Function, e SExpr) types.Type {
	switch x := e.(type) {
	case SIdent:
		return specVarType(fn, x.Name)
	case SSel:
		t := specExprType(fn, x.X)
		if t == nil {
			return nil
		}
		if p, ok := under(t).(*types.Pointer); ok {
			t = p.Elem()
		}
		st, ok := under(t).(*types.Struct)
		if !ok {
			return nil
		}
		for i := 0; i < st.NumFields(); i++ {
			if st.Field(i).Name() == x.Name {
				return st.Field(i).Type()
			}
		}
	}
	return nil
}
