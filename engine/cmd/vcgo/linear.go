package main

import (
	"go/types"
	"strings"
)

// Linear resources (buffers, readers, finalizers, ...) are tracked with the
// ghost array "live": live(x) = 1 while this function owns x and has to
// consume it exactly once.

func (r *FnRun) isLinearType(t types.Type) bool {
	if t == nil {
		return false
	}
	return r.e.cs.Linear[typeKey(t)]
}

func (r *FnRun) liveGhost() *GhostDecl {
	g := r.e.cs.Ghosts["live"]
	if g == nil {
		r.e.mu.Lock()
		g = &GhostDecl{Name: "live", Arity: 1, Sort: SInt}
		r.e.cs.Ghosts["live"] = g
		r.e.mu.Unlock()
	}
	return g
}

func (r *FnRun) linearOn() bool { return r.linear }

// linearResults registers ownership of results of linear type.
func (r *FnRun) linearResults(st *State, res []Val, ts []types.Type, where, what string) {
	if !r.linearOn() {
		return
	}
	for i, v := range res {
		if i >= len(ts) || !r.isLinearType(ts[i]) {
			continue
		}
		t := termOf(v)
		g := r.liveGhost()
		arr := r.ghostTerm(st, g)
		// a resource handed back by a call is a new one unless it is nil
		for _, o := range st.lin {
			r.assume(Or(Eq(t, IntLit(0)), Not(Eq(t, o.term))))
		}
		na := r.fresh("G_live", arr.Sort)
		r.assume(Eq(na, Store(arr, t, Ite(Eq(t, IntLit(0)), Select(arr, t), IntLit(1)))))
		st.ghost["live"] = na
		st.lin = append(st.lin, linRes{term: t, what: what + " result", typ: typeKey(ts[i]), instr: where})
	}
}

// linearConsumeArg: handing a linear value to a callee transfers ownership.
func (r *FnRun) linearConsumeArg(st *State, v Val, where, what string) {
	if !r.linearOn() {
		return
	}
	r.linearUse(st, v, where, what, true)
}

func (r *FnRun) linearTransfer(st *State, v Val, why string) {
	if !r.linearOn() {
		return
	}
	r.linearUse(st, v, "", why, true)
}

func (r *FnRun) tracked(st *State, t Term) bool {
	for _, o := range st.lin {
		if o.term.S == t.S {
			return true
		}
	}
	return false
}

func (r *FnRun) linearUse(st *State, v Val, where, what string, consume bool) {
	var t Term
	switch b := v.(type) {
	case IfaceVal:
		t = b.T
	case ClosureVal:
		t = b.T
	default:
		return
	}
	if !r.tracked(st, t) {
		return
	}
	g := r.liveGhost()
	arr := r.ghostTerm(st, g)
	r.oblige("LINEAR", "use-after-consume:"+what+"@"+where, Or(Eq(t, IntLit(0)), Eq(Select(arr, t), IntLit(1))), st)
	if consume {
		na := r.fresh("G_live", arr.Sort)
		r.assume(Eq(na, Store(arr, t, IntLit(0))))
		st.ghost["live"] = na
	}
}

// linearCaptured: a closure that captures a cell holding a linear value takes
// the resource with it (the closure body is verified on its own).
func (r *FnRun) linearCaptured(fr *Frame, st *State, bind []Val) {
	if !r.linearOn() {
		return
	}
	for _, b := range bind {
		p, ok := b.(PtrVal)
		if !ok || p.Kind != pkCell {
			if _, isI := b.(IfaceVal); isI {
				r.linearUse(st, b, "", "captured by closure", true)
			}
			continue
		}
		if v, ok := st.cells[p.Cell]; ok {
			r.linearUse(st, v, "", "captured by closure", true)
		}
	}
}

func (r *FnRun) linearLoopCut(st *State) {}

// linearExit: at function exit nothing may still be owned.
func (r *FnRun) linearExit(st *State, results []Val, where string) {
	if !r.linearOn() {
		return
	}
	g := r.liveGhost()
	for _, rv := range results {
		r.linearUse(st, rv, where, "returned", true)
		if sv, ok := rv.(*StructVal); ok {
			for _, f := range sv.F {
				r.linearUse(st, f, where, "returned", true)
			}
		}
	}
	arr := r.ghostTerm(st, g)
	for _, o := range st.lin {
		r.oblige("LINEAR", "leak:"+o.what+"@"+o.instr, Or(Eq(o.term, IntLit(0)), Eq(Select(arr, o.term), IntLit(0))), st)
	}
}

// ---------------------------------------------------------- lock hooks ----

// lockAcquired: ghost state declared "lockhavoc" describes what other threads
// may have changed while the lock was not held; it is forgotten here.
func (r *FnRun) lockAcquired(st *State, p PtrVal, id Term, mode int) {
	for _, n := range r.e.cs.LockHavoc {
		if g, ok := r.e.cs.Ghosts[n]; ok {
			old := r.ghostTerm(st, g)
			st.ghost[g.Name] = r.fresh("G_"+g.Name, old.Sort)
		}
		if strings.HasPrefix(n, "map:") {
			// "map:pkg::T.f": maps of the type of field f are forgotten when a
			// lock inside an object of type T is taken
			spec := strings.TrimPrefix(n, "map:")
			i := strings.LastIndex(spec, ".")
			if i < 0 || p.Kind != pkHeap {
				continue
			}
			tn, field := spec[:i], spec[i+1:]
			nt := r.e.namedType(p.Root)
			if nt == nil {
				continue
			}
			named, ok := types.Unalias(nt).(*types.Named)
			if !ok || named.Obj().Pkg() == nil || named.Obj().Pkg().Path()+"::"+named.Obj().Name() != tn {
				continue
			}
			if stt, ok := under(nt).(*types.Struct); ok {
				for j := 0; j < stt.NumFields(); j++ {
					if stt.Field(j).Name() == field {
						if _, ok := under(stt.Field(j).Type()).(*types.Map); ok {
							r.havocInferred(st, "map:"+typeKey(stt.Field(j).Type())+"|")
						}
					}
				}
			}
		}
	}
}
func (r *FnRun) lockReleasing(st *State, p PtrVal, id Term, mode int, where string) {}
