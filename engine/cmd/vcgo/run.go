package main

import (
	"bytes"
	"context"
	"fmt"
	"os"
	"os/exec"
	"path/filepath"
	"sort"
	"strings"
	"time"

	"golang.org/x/tools/go/ssa"
)

// OblInst is one verification condition: an obligation on one path.
type OblInst struct {
	Name   string
	Kind   string
	Desc   string
	Ctx    *ctxNode
	Goal   Term
	Path   string
	Cover  bool // expected satisfiable (vacuity guard)
	Result string
	Solver string
	TimeMs int64
	Seq    int
	Where  string
	Static bool // decided by the generator itself (frame / purity scans), no solver query
	Gate   *OblInst // the whole clause this conjunct belongs to: if that is proved, so is this
	// after-call covers: the context right before the callee's contract was
	// applied; Vacuous is set when that was satisfiable and Ctx is not
	PreCtx  *ctxNode
	Vacuous bool
}

// FnRun is the verification of one function (or one lemma).
type FnRun struct {
	curCallee *ssa.Function // static callee of the call being applied by contract
	e       *Engine
	fn      *ssa.Function
	c       *Contract
	name    string
	bv      bool
	prelude strings.Builder
	body    strings.Builder
	decl    map[string]bool
	ctr     int
	cellCtr int
	cur     *State // state whose ctx receives emitted commands
	obls    []*OblInst
	paths   int
	notes   map[string]bool
	fail    string // non-empty: function fell outside the supported subset
	depth   int
	strLits map[string]Term
	fcodes  map[string]int
	oblSeq  map[string]int
	writes  map[string]bool
	start   time.Time
	wallMs  int64
	wraps   bool
	linear  bool
	guarMode bool
	contents bool // track the element contents of append/copy (opt contents); off by default to keep VCs small
}

func (r *FnRun) note(f string, a ...interface{}) {
	r.notes[fmt.Sprintf(f, a...)] = true
}

func (r *FnRun) noteWrite(key string) { r.writes[key] = true }

func (r *FnRun) declareGlobal(name string, s Sort) {
	if r.decl[name] {
		return
	}
	r.decl[name] = true
	fmt.Fprintf(&r.prelude, "(declare-const %s %s)\n", name, s)
}

func (r *FnRun) declareFun(name string, args []Sort, res Sort) {
	if r.decl[name] {
		return
	}
	r.decl[name] = true
	var as []string
	for _, a := range args {
		as = append(as, string(a))
	}
	fmt.Fprintf(&r.prelude, "(declare-fun %s (%s) %s)\n", name, strings.Join(as, " "), res)
}

func (r *FnRun) emit(cmd string) {
	r.body.WriteString(cmd)
	r.body.WriteByte('\n')
	if r.cur != nil {
		r.cur.ctx = &ctxNode{cmd, r.cur.ctx}
	}
}

func (r *FnRun) fresh(hint string, s Sort) Term {
	r.ctr++
	name := fmt.Sprintf("%s_%d", sanitize(hint), r.ctr)
	r.emit(fmt.Sprintf("(declare-const %s %s)", name, s))
	return Term{name, s}
}

func (r *FnRun) assume(t Term) {
	if t.S == "true" {
		return
	}
	if t.Sort != SBool {
		panic("assume of non-bool " + t.S)
	}
	r.emit(fmt.Sprintf("(assert %s)", t.S))
}

func (r *FnRun) push() { r.body.WriteString("(push 1)\n") }
func (r *FnRun) pop()  { r.body.WriteString("(pop 1)\n") }

// oblige emits a proof obligation and afterwards assumes it.
func (r *FnRun) oblige(kind, desc string, goal Term, st *State) {
	if goal.S == "true" {
		return
	}
	if kind == "NIL" {
		if r.e.skipNil || st.ranged["nn:"+goal.S] {
			r.assume(goal)
			return
		}
		st.ranged["nn:"+goal.S] = true
	}
	name := fmt.Sprintf("%s:%s:%s", shortName(r.name), kind, desc)
	o := &OblInst{Name: name, Kind: kind, Desc: desc, Ctx: st.ctx, Goal: goal, Path: fmtPath(st.path), Seq: len(r.obls)}
	r.obls = append(r.obls, o)
	fmt.Fprintf(&r.body, "(push 1)\n(assert (not %s))\n(check-sat)\n(pop 1)\n", goal.S)
	r.assume(goal)
}

// staticObl records an obligation that the generator decides by a syntactic
// scan of the SSA (no solver involved).
func (r *FnRun) staticObl(kind, desc string, ok bool, why string, st *State) {
	name := fmt.Sprintf("%s:%s:%s", shortName(r.name), kind, desc)
	o := &OblInst{Name: name, Kind: kind, Desc: desc, Ctx: st.ctx, Goal: Term{why, SBool}, Path: why, Seq: len(r.obls), Static: true, Solver: "ssa-scan"}
	if ok {
		o.Result = "unsat"
	} else {
		o.Result = "sat"
	}
	r.obls = append(r.obls, o)
}

// cover emits a satisfiability check of the current path (vacuity guard).
func (r *FnRun) cover(desc string, st *State) {
	name := fmt.Sprintf("%s:COVER:%s", shortName(r.name), desc)
	o := &OblInst{Name: name, Kind: "COVER", Desc: desc, Ctx: st.ctx, Goal: TFalse, Path: fmtPath(st.path), Cover: true, Seq: len(r.obls)}
	r.obls = append(r.obls, o)
	fmt.Fprintf(&r.body, "(push 1)\n(check-sat)\n(pop 1)\n")
}

func (r *FnRun) strLit(s string) Term {
	if t, ok := r.strLits[s]; ok {
		return t
	}
	name := fmt.Sprintf("strlit_%d", len(r.strLits))
	r.declareGlobal(name, SStr)
	r.declareFun("slen", []Sort{SStr}, SInt)
	fmt.Fprintf(&r.prelude, "(assert (= (slen %s) %d))\n", name, len(s))
	for o, t := range r.strLits {
		if o != s {
			fmt.Fprintf(&r.prelude, "(assert (not (= %s %s)))\n", name, t.S)
		}
	}
	t := Term{name, SStr}
	r.strLits[s] = t
	return t
}

func (r *FnRun) header() string {
	var sb strings.Builder
	sb.WriteString("(set-option :produce-models true)\n")
	sb.WriteString("(set-logic ALL)\n")
	sb.WriteString("(declare-sort Str 0)\n")
	return sb.String()
}

func ctxCommands(c *ctxNode) []string {
	var out []string
	for n := c; n != nil; n = n.prev {
		out = append(out, n.cmd)
	}
	for i, j := 0, len(out)-1; i < j; i, j = i+1, j-1 {
		out[i], out[j] = out[j], out[i]
	}
	return out
}

// coverAfterCall emits a vacuity guard for the contract applied at a call: a
// path that was feasible before the callee's ensures were assumed must still
// be feasible afterwards (otherwise the contract contradicts the frame it
// left unchanged, and everything after the call would be proved vacuously).
func (r *FnRun) coverAfterCall(desc string, st *State, pre *ctxNode) {
	name := fmt.Sprintf("%s:COVER:after-call:%s", shortName(r.name), desc)
	o := &OblInst{Name: name, Kind: "COVER", Desc: "after-call:" + desc, Ctx: st.ctx, PreCtx: pre, Goal: TFalse, Path: fmtPath(st.path), Cover: true, Seq: len(r.obls)}
	r.obls = append(r.obls, o)
	fmt.Fprintf(&r.body, "(push 1)\n(check-sat)\n(pop 1)\n")
}

// standaloneCtx builds a satisfiability query for a bare context.
func (r *FnRun) standaloneCtx(ctx *ctxNode) string {
	var sb strings.Builder
	sb.WriteString(r.header())
	sb.WriteString(r.prelude.String())
	for _, c := range ctxCommands(ctx) {
		sb.WriteString(c)
		sb.WriteByte('\n')
	}
	sb.WriteString("(check-sat)\n")
	return sb.String()
}

// standalone builds a self-contained query for one VC.
func (r *FnRun) standalone(o *OblInst, model bool) string {
	var sb strings.Builder
	sb.WriteString(r.header())
	sb.WriteString(r.prelude.String())
	for _, c := range ctxCommands(o.Ctx) {
		sb.WriteString(c)
		sb.WriteByte('\n')
	}
	if !o.Cover {
		fmt.Fprintf(&sb, "(assert (not %s))\n", o.Goal.S)
	}
	sb.WriteString("(check-sat)\n")
	if model {
		sb.WriteString("(get-model)\n")
	}
	return sb.String()
}

type solverSpec struct {
	name string
	argv func(file string, timeoutMs int) []string
}

var solvers = []solverSpec{
	{"z3-new-5.1.0", func(f string, t int) []string { return []string{"z3-new", fmt.Sprintf("-t:%d", t), f} }},
	{"z3-4.8.12", func(f string, t int) []string { return []string{"/usr/bin/z3", fmt.Sprintf("-t:%d", t), f} }},
	{"cvc5-1.0", func(f string, t int) []string {
		return []string{"cvc5", "--incremental", fmt.Sprintf("--tlimit-per=%d", t), f}
	}},
}

func runSolver(sp solverSpec, file string, timeoutMs int, hardMs int) (string, error) {
	ctx, cancel := context.WithTimeout(context.Background(), time.Duration(hardMs)*time.Millisecond)
	defer cancel()
	argv := sp.argv(file, timeoutMs)
	cmd := exec.CommandContext(ctx, argv[0], argv[1:]...)
	var out bytes.Buffer
	cmd.Stdout = &out
	cmd.Stderr = &out
	err := cmd.Run()
	return out.String(), err
}

func firstWords(out string) []string {
	var res []string
	for _, l := range strings.Split(out, "\n") {
		l = strings.TrimSpace(l)
		switch l {
		case "sat", "unsat", "unknown", "timeout":
			res = append(res, l)
		}
	}
	return res
}

// solve discharges all VCs of the function: first the incremental script on the
// primary solver, then every VC that is not settled individually on the whole
// portfolio.
func (r *FnRun) solveBatch(workDir string, quickMs int, allSolvers bool) {
	if len(r.obls) == 0 {
		return
	}
	base := filepath.Join(workDir, sanitize(r.name))
	script := r.header() + r.prelude.String() + r.body.String()
	file := base + ".smt2"
	os.WriteFile(file, []byte(script), 0o644)
	t0 := time.Now()
	out, _ := runSolver(solvers[0], file, quickMs, quickMs*len(r.obls)+60000)
	words := firstWords(out)
	el := time.Since(t0).Milliseconds()
	wi := 0
	for _, o := range r.obls {
		if o.Static {
			continue
		}
		if wi < len(words) {
			o.Result = words[wi]
		} else {
			o.Result = "unknown"
		}
		wi++
		o.Solver = solvers[0].name
		o.TimeMs = el / int64(len(r.obls))
	}
	for _, o := range r.obls {
		if o.Static {
			continue
		}
		want := "unsat"
		if o.Cover {
			// a cover is fine unless the path is provably infeasible
			if o.Result != "unsat" {
				continue
			}
			want = ""
		}
		if o.Result == want && !allSolvers {
			continue
		}
		if o.Cover {
			continue
		}
		// retry individually on the portfolio
		q := r.standalone(o, false)
		qf := fmt.Sprintf("%s.vc%d.smt2", base, o.Seq)
		os.WriteFile(qf, []byte(q), 0o644)
		agreed := o.Result
		for si, sp := range solvers {
			if si == 0 && !allSolvers && o.Result != "unknown" {
				continue
			}
			t1 := time.Now()
			out, _ := runSolver(sp, qf, quickMs, quickMs+5000)
			w := firstWords(out)
			res := "unknown"
			if len(w) > 0 {
				res = w[0]
			}
			if res == "timeout" {
				res = "unknown"
			}
			if res == "unsat" || (res == "sat" && agreed != "unsat") {
				if agreed == "unsat" && res == "sat" || agreed == "sat" && res == "unsat" {
					r.note("SOLVER DISAGREEMENT on %s", o.Name)
				}
				agreed = res
				o.Solver = sp.name
				o.TimeMs = time.Since(t1).Milliseconds()
				if res == "unsat" && !allSolvers {
					break
				}
			}
		}
		o.Result = agreed
		if o.Result == "unsat" {
			os.Remove(qf)
		}
	}
}

// model asks the portfolio for a model of a failed VC.
func (r *FnRun) model(o *OblInst, workDir string, timeoutMs int) string {
	q := r.standalone(o, true)
	qf := filepath.Join(workDir, fmt.Sprintf("%s.model%d.smt2", sanitize(r.name), o.Seq))
	os.WriteFile(qf, []byte(q), 0o644)
	for _, sp := range solvers {
		out, _ := runSolver(sp, qf, timeoutMs, timeoutMs+5000)
		w := firstWords(out)
		if len(w) > 0 && w[0] == "sat" {
			return sp.name + "\n" + out
		}
	}
	return ""
}

// Obligation groups all VCs with the same name.
type Obligation struct {
	Name     string
	Kind     string
	Func     string
	VCs      int
	Status   string // discharged | failed | unknown
	Solver   string
	TimeMs   int64
	FailPath string
	inst     *OblInst
	run      *FnRun
}

func groupObligations(runs []*FnRun) []*Obligation {
	by := map[string]*Obligation{}
	var order []string
	for _, r := range runs {
		for _, o := range r.obls {
			if o.Cover || o.Kind == "GATE" {
				continue
			}
			g := by[o.Name]
			if g == nil {
				g = &Obligation{Name: o.Name, Kind: o.Kind, Func: r.name, Status: "discharged", run: r}
				by[o.Name] = g
				order = append(order, o.Name)
			}
			g.VCs++
			g.TimeMs += o.TimeMs
			if g.Solver == "" {
				g.Solver = o.Solver
			} else if !strings.Contains(g.Solver, o.Solver) {
				g.Solver += "+" + o.Solver
			}
			switch o.Result {
			case "unsat":
			case "sat":
				if g.Status != "failed" {
					g.Status = "failed"
					g.FailPath = o.Path
					g.inst = o
				}
			default:
				if g.Status == "discharged" {
					g.Status = "unknown"
					g.FailPath = o.Path
					g.inst = o
				}
			}
		}
	}
	sort.Strings(order)
	var out []*Obligation
	for _, n := range order {
		out = append(out, by[n])
	}
	return out
}

// shortName drops the module prefix from a contract key.
func shortName(k string) string {
	k = strings.TrimPrefix(k, modPath+"/pkg/")
	k = strings.TrimPrefix(k, modPath+"/")
	return k
}
