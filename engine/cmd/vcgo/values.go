package main

import (
	"fmt"
	"go/types"
	"math/big"
	"strings"

	"golang.org/x/tools/go/ssa"
)

// Val is a symbolic Go value: Term (scalar), *StructVal, SliceVal, PtrVal,
// IfaceVal, ClosureVal, TupleVal.
type Val interface{}

type StructVal struct {
	T types.Type // the (possibly named) struct type
	F []Val
}

type SliceVal struct {
	Base, Off, Len, Cap Term
	Elem                types.Type
}

const (
	pkCell = iota
	pkHeap
	pkElem
	pkArr // pointer to a whole fixed-size array that lives in element memory (Base)
)

type Cell struct {
	id      int
	name    string
	typ     types.Type
	escaped bool // captured by a closure: havocked by calls
	freevar bool // the cell of a closure's free variable
}

func (c *Cell) key() string { return fmt.Sprintf("%d", c.id) }

type PtrVal struct {
	Kind  int
	Cell  *Cell
	CPath []int // pkCell: field indices
	Ref   Term  // pkHeap: object reference (Int, 0 = nil)
	Base  Term  // pkElem: backing array id
	Idx   Term  // pkElem: absolute index in the backing array
	Root  string // pkHeap: heap key of the root object's type; pkElem: key of elem type
	Path  string // leaf path prefix inside the root object
	Elem  types.Type
}

type IfaceVal struct {
	T     Term       // opaque identity, 0 = nil interface
	Dyn   types.Type // statically known dynamic type, or nil
	Inner Val        // value of the dynamic type when known
}

type ClosureVal struct {
	T    Term
	Fn   *ssa.Function
	Bind []Val
}

type TupleVal []Val

type unsupported struct{ reason string }

func unsup(f string, a ...interface{}) { panic(unsupported{fmt.Sprintf(f, a...)}) }

func under(t types.Type) types.Type { return types.Unalias(t).Underlying() }

func typeKey(t types.Type) string {
	t = types.Unalias(t)
	if n, ok := t.(*types.Named); ok {
		if n.Obj().Pkg() != nil {
			s := n.Obj().Pkg().Path() + "." + n.Obj().Name()
			if ta := n.TypeArgs(); ta != nil && ta.Len() > 0 {
				s += "[" + types.TypeString(ta.At(0), nil) + "]"
			}
			return s
		}
		return n.Obj().Name()
	}
	return types.TypeString(t, nil)
}

func intRange(b *types.Basic) (lo, hi *big.Int, ok bool) {
	bits := 0
	signed := false
	switch b.Kind() {
	case types.Int, types.Int64, types.UntypedInt:
		bits, signed = 64, true
	case types.Int32, types.UntypedRune:
		bits, signed = 32, true
	case types.Int16:
		bits, signed = 16, true
	case types.Int8:
		bits, signed = 8, true
	case types.Uint, types.Uint64, types.Uintptr:
		bits = 64
	case types.Uint32:
		bits = 32
	case types.Uint16:
		bits = 16
	case types.Uint8:
		bits = 8
	default:
		return nil, nil, false
	}
	if signed {
		hi = new(big.Int).Sub(pow2(bits-1), big.NewInt(1))
		lo = new(big.Int).Neg(pow2(bits - 1))
	} else {
		lo = big.NewInt(0)
		hi = new(big.Int).Sub(pow2(bits), big.NewInt(1))
	}
	return lo, hi, true
}

func intBits(b *types.Basic) (int, bool) {
	switch b.Kind() {
	case types.Int, types.Int64, types.UntypedInt:
		return 64, true
	case types.Int32, types.UntypedRune:
		return 32, true
	case types.Int16:
		return 16, true
	case types.Int8:
		return 8, true
	case types.Uint, types.Uint64, types.Uintptr:
		return 64, false
	case types.Uint32:
		return 32, false
	case types.Uint16:
		return 16, false
	case types.Uint8:
		return 8, false
	}
	return 0, false
}

func isIntType(t types.Type) (*types.Basic, bool) {
	b, ok := under(t).(*types.Basic)
	if !ok {
		return nil, false
	}
	if b.Info()&types.IsInteger != 0 {
		return b, true
	}
	return nil, false
}

func isUnsigned(t types.Type) bool {
	b, ok := under(t).(*types.Basic)
	return ok && b.Info()&types.IsUnsigned != 0
}

// sortOf maps a Go type that is represented by a single term to its sort.
func (r *FnRun) sortOf(t types.Type) Sort {
	switch u := under(t).(type) {
	case *types.Basic:
		switch {
		case u.Info()&types.IsBoolean != 0:
			return SBool
		case u.Info()&types.IsInteger != 0:
			if r.bv {
				n, _ := intBits(u)
				return SBV(n)
			}
			return SInt
		case u.Info()&types.IsString != 0:
			return SStr
		case u.Info()&types.IsFloat != 0:
			return SReal
		case u.Kind() == types.UnsafePointer, u.Kind() == types.UntypedNil:
			return SInt
		}
	case *types.Pointer, *types.Interface, *types.Signature, *types.Map, *types.Chan:
		return SInt
	case *types.Array:
		if u.Len() == 0 {
			return SInt // zero-length marker arrays ([0]sync.Mutex "DoNotCopy"): no content
		}
		return SArr(r.idxSort(), r.sortOf(u.Elem()))
	}
	unsup("no single-term representation for type %s", t)
	return ""
}

func (r *FnRun) idxSort() Sort {
	if r.bv {
		return SBV(64)
	}
	return SInt
}

func (r *FnRun) idxLit(n int64) Term {
	if r.bv {
		return BVLit(big.NewInt(n), 64)
	}
	return IntLit(n)
}

type leaf struct {
	path string
	typ  types.Type
	sort Sort
}

func isScalarType(t types.Type) bool {
	switch u := under(t).(type) {
	case *types.Struct, *types.Slice, *types.Tuple:
		return false
	case *types.Array:
		return u.Len() == 0 || isScalarType(u.Elem())
	}
	return true
}

func joinPath(a, b string) string {
	if a == "" {
		return b
	}
	if b == "" {
		return a
	}
	return a + "." + b
}

// zeroVal builds the zero value of a type.
func (r *FnRun) zeroVal(t types.Type) Val {
	switch u := under(t).(type) {
	case *types.Struct:
		sv := &StructVal{T: t}
		for i := 0; i < u.NumFields(); i++ {
			sv.F = append(sv.F, r.zeroVal(u.Field(i).Type()))
		}
		return sv
	case *types.Slice:
		return SliceVal{Base: IntLit(0), Off: r.idxLit(0), Len: r.idxLit(0), Cap: r.idxLit(0), Elem: u.Elem()}
	case *types.Tuple:
		var tv TupleVal
		for i := 0; i < u.Len(); i++ {
			tv = append(tv, r.zeroVal(u.At(i).Type()))
		}
		return tv
	case *types.Pointer:
		return r.wrapScalar(IntLit(0), t)
	case *types.Interface:
		return IfaceVal{T: IntLit(0)}
	case *types.Signature:
		return ClosureVal{T: IntLit(0)}
	case *types.Array:
		if u.Len() == 0 {
			return IntLit(0)
		}
		es := r.sortOf(u.Elem())
		return Term{fmt.Sprintf("((as const %s) %s)", SArr(r.idxSort(), es), r.zeroTerm(u.Elem()).S), SArr(r.idxSort(), es)}
	}
	return r.zeroTerm(t)
}

func (r *FnRun) zeroTerm(t types.Type) Term {
	s := r.sortOf(t)
	switch {
	case s == SInt:
		return IntLit(0)
	case s == SBool:
		return TFalse
	case s == SStr:
		return r.strLit("")
	case s == SReal:
		return Term{"0.0", SReal}
	case s.IsBV():
		return BVLit(big.NewInt(0), s.BVWidth())
	case s.IsArr():
		return r.zeroVal(t).(Term)
	}
	unsup("zero of sort %s", s)
	return Term{}
}

// wrapScalar turns a term that represents a value of Go type t into the
// executor's structured representation (pointers and interfaces get wrappers).
func (r *FnRun) wrapScalar(tm Term, t types.Type) Val {
	switch u := under(t).(type) {
	case *types.Pointer:
		return PtrVal{Kind: pkHeap, Ref: tm, Root: r.rootKey(u.Elem()), Elem: u.Elem()}
	case *types.Interface:
		return IfaceVal{T: tm}
	case *types.Signature:
		return ClosureVal{T: tm}
	}
	return tm
}

// rootKey is the heap key prefix for objects of type t reached through a
// pointer.
func (r *FnRun) rootKey(t types.Type) string {
	if _, ok := under(t).(*types.Struct); ok {
		return typeKey(t)
	}
	return "*" + typeKey(t)
}

// scalarOf converts a value to a single term where that is possible.
func (r *FnRun) scalarOf(v Val) Term {
	switch x := v.(type) {
	case Term:
		return x
	case PtrVal:
		if x.Kind == pkHeap && x.Path == "" {
			return x.Ref
		}
		unsup("interior or local pointer used as a first-class value")
	case IfaceVal:
		return x.T
	case ClosureVal:
		return x.T
	}
	unsup("value %T has no scalar representation", v)
	return Term{}
}

// freshVal creates an unconstrained symbolic value of type t (integer leaves
// get their machine range assumed).
func (r *FnRun) freshVal(st *State, t types.Type, hint string) Val {
	switch u := under(t).(type) {
	case *types.Struct:
		sv := &StructVal{T: t}
		for i := 0; i < u.NumFields(); i++ {
			sv.F = append(sv.F, r.freshVal(st, u.Field(i).Type(), hint+"_"+u.Field(i).Name()))
		}
		return sv
	case *types.Slice:
		// A slice that comes from outside (parameter, call result) is given
		// offset 0 in a backing array of its own: distinct such slices are
		// assumed not to overlap partially (assumption A-SLICE). This keeps
		// element terms free of offset arithmetic.
		s := SliceVal{
			Base: r.fresh(hint+"_base", SInt), Off: r.idxLit(0),
			Len: r.fresh(hint+"_len", r.idxSort()), Cap: r.fresh(hint+"_cap", r.idxSort()), Elem: u.Elem(),
		}
		r.assumeSliceWF(s)
		return s
	case *types.Tuple:
		var tv TupleVal
		for i := 0; i < u.Len(); i++ {
			tv = append(tv, r.freshVal(st, u.At(i).Type(), fmt.Sprintf("%s_%d", hint, i)))
		}
		return tv
	}
	tm := r.fresh(hint, r.sortOf(t))
	r.assumeRange(st, tm, t)
	switch under(t).(type) {
	case *types.Pointer, *types.Map, *types.Chan:
		// whatever it refers to exists in this state
		r.assume(Le(tm, st.top))
		r.assume(Ge(tm, IntLit(0)))
	}
	return r.wrapScalar(tm, t)
}

func (r *FnRun) assumeSliceWF(s SliceVal) {
	if r.bv {
		z := r.idxLit(0)
		_ = z
		r.assume(App("bvule", SBool, s.Len, s.Cap))
		r.assume(App("bvult", SBool, s.Cap, BVLit(pow2(40), 64)))
		r.assume(App("bvult", SBool, s.Off, BVLit(pow2(40), 64)))
		return
	}
	r.assume(And(Le(IntLit(0), s.Off), Le(IntLit(0), s.Len), Le(s.Len, s.Cap), Le(s.Cap, BigLit(pow2(62)))))
	r.assume(Imp(Eq(s.Base, IntLit(0)), Eq(s.Cap, IntLit(0))))
	r.assume(Ge(s.Base, IntLit(0)))
}

// assumeRange records the machine range of an integer-typed term (Int mode).
func (r *FnRun) assumeRange(st *State, tm Term, t types.Type) {
	if r.bv {
		return
	}
	b, ok := isIntType(t)
	if !ok {
		if tm.Sort == SStr {
			return
		}
		return
	}
	if st != nil {
		if st.ranged[tm.S] {
			return
		}
		st.ranged[tm.S] = true
	}
	lo, hi, _ := intRange(b)
	r.assume(And(Le(BigLit(lo), tm), Le(tm, BigLit(hi))))
}

func sanitize(s string) string {
	var sb strings.Builder
	for _, c := range s {
		switch {
		case c >= 'a' && c <= 'z', c >= 'A' && c <= 'Z', c >= '0' && c <= '9', c == '_':
			sb.WriteRune(c)
		case c == '.' || c == '/':
			sb.WriteByte('_')
		case c == '*':
			sb.WriteString("P")
		case c == '[' || c == ']':
			sb.WriteString("S")
		default:
			sb.WriteByte('_')
		}
	}
	return sb.String()
}

func shortKey(k string) string {
	// drop the module path for readability
	k = strings.ReplaceAll(k, "github.com/buildbarn/bb-storage/pkg/", "")
	return sanitize(k)
}
