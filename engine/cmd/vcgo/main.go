package main

import (
	"crypto/sha1"
	"encoding/json"
	"flag"
	"fmt"
	"os"
	"path/filepath"
	"regexp"
	"sort"
	"strconv"
	"strings"
	"sync"
	"time"

	"golang.org/x/tools/go/ssa"
)

// PropConfig is /verif/props/<id>.json.
type PropConfig struct {
	ID        string   `json:"id"`
	Packages  []string `json:"packages"`
	Functions []string `json:"functions"` // contract keys "pkg::rel" (pkg may be abbreviated with "./")
	Lemmas    []string `json:"lemmas"`
	Sweep     []string `json:"sweep"`      // safety kinds that are part of the claim
	Assumed   []string `json:"assumed"`    // regexps of obligation names left as assumptions
	MustExist []string `json:"must_exist"` // obligation names that have to be generated
	Canaries  []string `json:"canaries"`   // lemma keys that must NOT be provable
	Trusted   []string `json:"trusted_base"`
	Bounded   []string `json:"bounded"` // descriptions of bounded stand-ins run by the wrapper script
	BoundedRuns []BoundedSpec `json:"bounded_runs"` // bounded stand-ins executed on the real code by this check (bounded.go)
	Notes     []string `json:"notes"`
}

var contractKinds = map[string]bool{"POST": true, "PRE": true, "INV-INIT": true, "INV-PRES": true, "LEMMA": true, "LINEAR": true, "LOCK": true, "MONOTONE": true, "CLOSE": true, "PANIC": true, "TYPEASSERT": true, "FRAME": true}

func expandKey(k string) string {
	if strings.HasPrefix(k, "./") {
		return modPath + "/" + strings.TrimPrefix(k, "./")
	}
	return k
}

func main() {
	if len(os.Args) < 2 {
		fmt.Fprintln(os.Stderr, "usage: vcgo check|dump|replay ...")
		os.Exit(2)
	}
	switch os.Args[1] {
	case "check":
		os.Exit(cmdCheck(os.Args[2:]))
	case "dump":
		cmdDump(os.Args[2:])
	default:
		fmt.Fprintln(os.Stderr, "unknown command")
		os.Exit(2)
	}
}

func cmdDump(args []string) {
	fs := flag.NewFlagSet("dump", flag.ExitOnError)
	repo := fs.String("repo", "/repo", "")
	fs.Parse(args)
	pkg := fs.Arg(0)
	e, err := loadEngine(*repo, []string{pkg}, nil)
	if err != nil {
		fmt.Fprintln(os.Stderr, err)
		os.Exit(2)
	}
	for p := range e.pkgs {
		fn := e.findFunction(p, fs.Arg(1))
		if fn != nil {
			fn.WriteTo(os.Stdout)
			li := analyzeLoops(fn)
			for _, l := range li.list {
				fmt.Printf("loop %d: head block %d (%s)\n", l.ordinal, l.head.Index, l.head.Comment)
			}
			for _, a := range fn.AnonFuncs {
				fmt.Println("anon:", relName(a))
			}
			for _, l := range li.list {
				for b := range l.body {
					for _, in := range b.Instrs {
						ms := newModSet()
						e.instrMods(fn, in, ms, nil, 0)
						if ms.all {
							fmt.Printf("loop %d: unbounded frame from: %s\n", l.ordinal, in.String())
						}
					}
				}
			}
		}
	}
}

type oblReport struct {
	Name    string `json:"name"`
	Kind    string `json:"kind"`
	VCs     int    `json:"vcs"`
	Status  string `json:"status"`
	Solver  string `json:"solver,omitempty"`
	TimeMs  int64  `json:"solver_ms"`
	Claimed bool   `json:"claimed"`
}

func cmdCheck(args []string) int {
	fs := flag.NewFlagSet("check", flag.ExitOnError)
	repo := fs.String("repo", "/repo", "repository working tree")
	verif := fs.String("verif", "/verif", "verification directory")
	prop := fs.String("prop", "", "property id")
	tier := fs.String("tier", "quick", "quick|thorough")
	keep := fs.Bool("keep", false, "keep SMT files")
	only := fs.String("only", "", "restrict to functions whose key contains this string")
	verbose := fs.Bool("v", false, "print every obligation")
	noEvidence := fs.Bool("no-evidence", false, "do not write the evidence file")
	fs.Parse(args)
	t0 := time.Now()
	seed := 0
	if s := os.Getenv("VERIF_SEED"); s != "" {
		seed, _ = strconv.Atoi(s)
	}
	var cfg PropConfig
	b, err := os.ReadFile(filepath.Join(*verif, "props", *prop+".json"))
	if err != nil {
		fmt.Fprintln(os.Stderr, err)
		return 2
	}
	if err := json.Unmarshal(b, &cfg); err != nil {
		fmt.Fprintln(os.Stderr, "props:", err)
		return 2
	}
	e, err := loadEngine(*repo, cfg.Packages, []string{filepath.Join(*verif, "contracts")})
	if err != nil {
		fmt.Printf("INCONCLUSIVE property=%s reason=cannot load packages: %v\n", cfg.ID, err)
		return 2
	}
	e.covers = true
	workDir, _ := os.MkdirTemp("", "vcgo-"+cfg.ID+"-")
	if !*keep {
		defer os.RemoveAll(workDir)
	} else {
		fmt.Println("work dir:", workDir)
	}
	timeout := 10000
	if *tier == "thorough" {
		timeout = 60000
	}
	if s := os.Getenv("VCGO_LIMIT_MS"); s != "" { // development aid
		if n, err := strconv.Atoi(s); err == nil {
			timeout = n
		}
	}

	// --- generate
	type job struct {
		key string
		ct  *Contract
		fn  *ssa.Function
	}
	var jobs []job
	inconclusive := []string{}
	for _, k := range append(append([]string{}, cfg.Functions...), cfg.Lemmas...) {
		key := expandKey(k)
		if *only != "" && !strings.Contains(key, *only) {
			continue
		}
		ct := e.cs.ByKey[key]
		if ct == nil {
			inconclusive = append(inconclusive, fmt.Sprintf("no contract for %s", key))
			continue
		}
		if ct.Kind == "lemma" {
			jobs = append(jobs, job{key, ct, nil})
			continue
		}
		fn := e.findFunction(ct.Pkg, ct.RelName)
		if fn == nil {
			inconclusive = append(inconclusive, fmt.Sprintf("contract %s names a function that does not exist", key))
			continue
		}
		jobs = append(jobs, job{key, ct, fn})
	}
	runs := make([]*FnRun, len(jobs))
	var wg sync.WaitGroup
	sem := make(chan struct{}, 12)
	for i, j := range jobs {
		wg.Add(1)
		go func(i int, j job) {
			defer wg.Done()
			sem <- struct{}{}
			defer func() { <-sem }()
			var r *FnRun
			if j.fn == nil {
				r = e.verifyLemma(j.ct)
			} else {
				r = e.verifyFunc(j.fn, j.ct)
			}
			if r.fail == "" {
				r.solve(workDir, timeout, *tier == "thorough")
			}
			runs[i] = r
		}(i, j)
	}
	wg.Wait()

	// --- canaries: lemmas that must not be provable
	canaryResults := map[string]string{}
	brokenCheck := []string{}
	for _, k := range cfg.Canaries {
		key := expandKey(k)
		ct := e.cs.ByKey[key]
		if ct == nil {
			brokenCheck = append(brokenCheck, "canary "+key+" missing")
			continue
		}
		var r *FnRun
		if ct.Kind == "lemma" {
			r = e.verifyLemma(ct)
		} else {
			fn := e.findFunction(ct.Pkg, ct.RelName)
			if fn == nil {
				brokenCheck = append(brokenCheck, "canary "+key+" names no function")
				continue
			}
			r = e.verifyFunc(fn, ct)
		}
		if r.fail != "" {
			brokenCheck = append(brokenCheck, "canary "+key+": "+r.fail)
			continue
		}
		r.solve(workDir, 3000, false)
		allUnsat := true
		n := 0
		for _, o := range r.obls {
			if o.Cover || !contractKinds[o.Kind] {
				continue
			}
			n++
			if o.Result != "unsat" {
				allUnsat = false
			}
		}
		if n == 0 || allUnsat {
			canaryResults[key] = "PROVED (check is broken)"
			brokenCheck = append(brokenCheck, "canary "+key+" was discharged")
		} else {
			canaryResults[key] = "not provable, as required"
		}
	}

	// --- evaluate
	var assumedRe []*regexp.Regexp
	for _, a := range cfg.Assumed {
		assumedRe = append(assumedRe, regexp.MustCompile(a))
	}
	sweep := map[string]bool{}
	for _, s := range cfg.Sweep {
		sweep[s] = true
	}
	var okRuns []*FnRun
	for _, r := range nonNil(runs) {
		if r.fail == "" {
			okRuns = append(okRuns, r)
		}
	}
	obls := groupObligations(okRuns)
	var reports []oblReport
	var failed []*Obligation
	nClaimed, nDischarged := 0, 0
	assumedList := []string{}
	byKind := map[string]int{}
	solverCount := map[string]int{}
	var solverMs int64
	exist := map[string]bool{}
	for _, o := range obls {
		exist[o.Name] = true
		claimed := contractKinds[o.Kind] || sweep[o.Kind]
		for _, re := range assumedRe {
			if re.MatchString(o.Name) {
				claimed = false
			}
		}
		rep := oblReport{Name: o.Name, Kind: o.Kind, VCs: o.VCs, Status: o.Status, Solver: o.Solver, TimeMs: o.TimeMs, Claimed: claimed}
		reports = append(reports, rep)
		solverMs += o.TimeMs
		if claimed {
			nClaimed++
			byKind[o.Kind]++
			if o.Status == "discharged" {
				nDischarged++
				solverCount[o.Solver]++
			} else {
				failed = append(failed, o)
			}
		} else if o.Status != "discharged" {
			assumedList = append(assumedList, o.Name)
		}
		if *verbose {
			fmt.Printf("  %-11s %-8v %s  [%s %dms, %d VC]\n", o.Status, claimed, o.Name, o.Solver, o.TimeMs, o.VCs)
		}
	}
	for _, m := range cfg.MustExist {
		m = expandKey(m)
		m = shortName(m)
		if *only == "" && !exist[m] {
			inconclusive = append(inconclusive, "expected obligation was not generated: "+m)
		}
	}
	vacuous := []string{}
	notes := map[string]bool{}
	fnReports := []map[string]interface{}{}
	totalPaths, totalVCs := 0, 0
	for _, r := range nonNil(runs) {
		if r.fail != "" {
			inconclusive = append(inconclusive, fmt.Sprintf("%s: %s", shortName(r.name), firstLine(r.fail)))
			if strings.HasPrefix(r.fail, "engine error") {
				lines := strings.Split(r.fail, "\n")
				if len(lines) > 24 {
					lines = lines[:24]
				}
				fmt.Fprintln(os.Stderr, strings.Join(lines, "\n"))
			}
		}
		for _, o := range r.obls {
			if o.Cover && o.Result == "unsat" && (o.Desc == "entry" || o.Desc == "hypotheses") {
				vacuous = append(vacuous, o.Name)
			}
			if o.Cover && o.Vacuous {
				brokenCheck = append(brokenCheck, "contract applied at a call contradicts the state it leaves unchanged (path feasible before, infeasible after): "+o.Name)
			}
		}
		for n := range r.notes {
			notes[n] = true
		}
		totalPaths += r.paths
		totalVCs += len(r.obls)
		fnReports = append(fnReports, map[string]interface{}{"function": r.name, "paths": r.paths, "vcs": len(r.obls), "generate_ms": r.wallMs, "arith": map[bool]string{true: "bv", false: "int"}[r.bv]})
	}
	for _, v := range vacuous {
		brokenCheck = append(brokenCheck, "vacuous precondition: "+v)
	}

	// --- known findings
	known := loadKnownFindings(filepath.Join(*verif, "known_findings.txt"), cfg.ID)
	exit := 0
	violations := 0
	replayDir := filepath.Join(*verif, "replays")
	for _, o := range failed {
		if kf, ok := known[o.Name]; ok {
			fmt.Printf("KNOWN-FINDING: property=%s %s\n", cfg.ID, kf)
			delete(known, o.Name)
			// a known finding is not counted as discharged nor as claimed
			nClaimed--
			continue
		}
		violations++
		os.MkdirAll(replayDir, 0o755)
		rp := filepath.Join(replayDir, fmt.Sprintf("%s-%s.txt", cfg.ID, shortHash(o.Name)))
		suffix := writeReplay(e, o, rp, workDir, *repo, *verif)
		fmt.Printf("VIOLATION property=%s replay=%s obligation=%s status=%s %s\n", cfg.ID, rp, o.Name, o.Status, suffix)
		exit = 1
	}
	for _, m := range brokenCheck {
		fmt.Printf("BROKEN-CHECK property=%s %s\n", cfg.ID, m)
		if exit == 0 {
			exit = 3
		}
	}
	// Obligations that can no longer be generated (the contract of a function in
	// this property's roster does not bind to the code any more, the function
	// left the supported subset, or a key obligation disappeared) passed on the
	// unchanged tree and do not pass now: reported as a violation without a
	// failing input. The replay file carries the reason.
	for i, m := range inconclusive {
		violations++
		os.MkdirAll(replayDir, 0o755)
		rp := filepath.Join(replayDir, fmt.Sprintf("%s-ungenerated-%d-%s.txt", cfg.ID, i, shortHash(m)))
		os.WriteFile(rp, []byte("obligation(s) could not be generated from the current source\nreason: "+m+
			"\n\nThe contracts for this property are keyed to functions, parameters, fields and (where unavoidable) local variables\nof the code. Every obligation of the named function was discharged on the unchanged tree; none can be discharged now.\nresult: no-failing-input-found\n"), 0o644)
		fmt.Printf("VIOLATION property=%s replay=%s obligation=UNGENERATED reason=%q no-failing-input-found\n", cfg.ID, rp, m)
		exit = 1
	}

	// --- bounded stand-ins: exhaustive execution of the real functions that the
	// contract verifier cannot reach, over a stated small space. Labelled
	// bounded; never counted among the discharged obligations.
	var boundedReports []map[string]interface{}
	if *only == "" {
		for _, b := range cfg.BoundedRuns {
			tb := time.Now()
			ok, evals, groups, transcript := runBounded(*repo, *verif, b)
			boundedReports = append(boundedReports, map[string]interface{}{
				"name": b.Name, "label": "BOUNDED stand-in — executed on the real code within the stated bound; not a proof and not counted as discharged",
				"functions": b.Covers, "bound": b.Bound, "why_not_under_contract": b.Why, "evaluations": evals, "groups": groups,
				"passed": ok, "wall_s": time.Since(tb).Seconds(), "cmd": "go test -overlay … -run " + b.Run + " ./" + b.Pkg,
			})
			fmt.Printf("%s bounded stand-in %s: %d cases executed on the real code, passed=%v (bounded, not counted as proved), %.1fs\n",
				cfg.ID, b.Name, evals, ok, time.Since(tb).Seconds())
			if !ok {
				violations++
				os.MkdirAll(replayDir, 0o755)
				rp := filepath.Join(replayDir, fmt.Sprintf("%s-bounded-%s.txt", cfg.ID, sanitize(b.Name)))
				os.WriteFile(rp, []byte("bounded stand-in "+b.Name+" failed on the real code\nbound: "+b.Bound+"\nfunctions: "+strings.Join(b.Covers, ", ")+
					"\n\nEvery BOUNDED-VIOLATION line below names the failing input; the test file is "+filepath.Join(*verif, b.TestFile)+
					" (injected into ./"+b.Pkg+" through a build overlay).\n\n--- go test output\n"+transcript), 0o644)
				if strings.Contains(transcript, "BOUNDED-VIOLATION") {
					fmt.Printf("VIOLATION property=%s replay=%s obligation=BOUNDED:%s status=failed replayed-on-real-code\n", cfg.ID, rp, b.Name)
				} else {
					// the stand-in did not run to a verdict (it no longer builds against
					// the package, timed out, or panicked outside a guarded call): like an
					// obligation that cannot be generated, reported without a failing input
					fmt.Printf("VIOLATION property=%s replay=%s obligation=BOUNDED:%s status=did-not-run no-failing-input-found\n", cfg.ID, rp, b.Name)
				}
				exit = 1
			}
		}
	}

	// --- evidence
	var samples []interface{}
	for i, rep := range reports {
		if rep.Claimed && (i%maxInt(1, len(reports)/8) == 0) {
			samples = append(samples, rep)
		}
	}
	if len(samples) == 0 && len(reports) > 0 {
		samples = append(samples, reports[0])
	}
	var noteList []string
	for n := range notes {
		noteList = append(noteList, n)
	}
	sort.Strings(noteList)
	assumptions := append([]string{}, cfg.Trusted...)
	assumptions = append(assumptions, noteList...)
	for _, a := range assumedList {
		assumptions = append(assumptions, "safety obligation not discharged and assumed: "+a)
	}
	for k, n := range e.cs.Scan {
		assumptions = append(assumptions, fmt.Sprintf("contract files contain %d %s block(s) (assumed, not verified)", n, k))
	}
	for _, bd := range cfg.Bounded {
		assumptions = append(assumptions, "bounded stand-in (not counted as discharged): "+bd)
	}
	for _, b := range cfg.BoundedRuns {
		assumptions = append(assumptions, "BOUNDED, not proved: "+strings.Join(b.Covers, ", ")+" are checked only by exhaustive execution within: "+b.Bound)
	}
	ev := map[string]interface{}{
		"property_id": cfg.ID, "tier": *tier, "seed": seed, "level": "proof",
		"coverage": map[string]interface{}{
			"obligations": nClaimed, "discharged": nDischarged,
			"checker_cmd":  fmt.Sprintf("bin/check %s --tier %s", cfg.ID, *tier),
			"trusted_base": append([]string{"vcgo VC generator (this repository, /verif/engine)", "golang.org/x/tools/go/ssa v0.45.0", "z3 5.1.0 / z3 4.8.12 / cvc5 1.0"}, cfg.Trusted...),
			"samples":      samples, "obligations_by_kind": byKind, "discharged_by_backend": solverCount,
			"solver_ms": solverMs, "functions_under_contract": fnReports, "paths": totalPaths, "verification_conditions": totalVCs,
			"canaries": canaryResults, "unclaimed_undischarged": assumedList, "all_obligations": reports,
			"notes": cfg.Notes, "inconclusive": inconclusive, "bounded_standins": boundedReports,
		},
		"assumptions": assumptions, "wall_s": time.Since(t0).Seconds(), "violations": violations,
	}
	if !*noEvidence && *only == "" {
		os.MkdirAll(filepath.Join(*verif, "evidence"), 0o755)
		out, _ := json.MarshalIndent(ev, "", " ")
		os.WriteFile(filepath.Join(*verif, "evidence", cfg.ID+".json"), out, 0o644)
	}
	fmt.Printf("%s %s: %d/%d claimed obligations discharged (%d VCs, %d paths, %d functions), %d assumed, %.1fs\n",
		cfg.ID, *tier, nDischarged, nClaimed, totalVCs, totalPaths, len(jobs), len(assumedList), time.Since(t0).Seconds())
	return exit
}

func shortHash(s string) string {
	h := sha1.Sum([]byte(s))
	t := sanitize(s)
	if len(t) > 60 {
		t = t[len(t)-60:]
	}
	return fmt.Sprintf("%x-%s", h[:4], t)
}

func maxInt(a, b int) int {
	if a > b {
		return a
	}
	return b
}

func firstLine(s string) string {
	if i := strings.IndexByte(s, '\n'); i >= 0 {
		return s[:i]
	}
	return s
}

func nonNil(rs []*FnRun) []*FnRun {
	var out []*FnRun
	for _, r := range rs {
		if r != nil {
			out = append(out, r)
		}
	}
	return out
}

// loadKnownFindings reads "finding: property=<id> obligation=<name> <text>" lines.
func loadKnownFindings(path, id string) map[string]string {
	out := map[string]string{}
	b, err := os.ReadFile(path)
	if err != nil {
		return out
	}
	for _, l := range strings.Split(string(b), "\n") {
		l = strings.TrimSpace(l)
		if !strings.HasPrefix(l, "finding:") {
			continue
		}
		f := strings.Fields(l)
		var pid, ob string
		for _, w := range f {
			if strings.HasPrefix(w, "property=") {
				pid = strings.TrimPrefix(w, "property=")
			}
			if strings.HasPrefix(w, "obligation=") {
				ob = strings.TrimPrefix(w, "obligation=")
			}
		}
		if pid == id && ob != "" {
			out[ob] = strings.TrimSpace(strings.TrimPrefix(l, "finding:"))
		}
	}
	return out
}

var replayBudget = 12

// writeReplay records a failed obligation: name, path, solver output, and the
// counterexample where the solver gives one.
func writeReplay(e *Engine, o *Obligation, file, workDir, repo, verif string) string {
	var sb strings.Builder
	fmt.Fprintf(&sb, "obligation: %s\nkind: %s\nfunction: %s\nstatus: %s\npath: %s\n", o.Name, o.Kind, o.Func, o.Status, o.FailPath)
	suffix := "no-failing-input-found"
	if o.inst != nil {
		fmt.Fprintf(&sb, "goal: %s\n", o.inst.Goal.S)
		// models are asked for only where a solver answered sat, and only for
		// the first few failures of a run (each query can take seconds)
		m := ""
		if o.Status == "failed" && replayBudget > 0 {
			replayBudget--
			if vals := o.run.goalValues(o.inst, workDir, 5000); vals != "" {
				fmt.Fprintf(&sb, "\n--- values of the goal's terms in a counter-model (%s\n", vals)
			}
			m = o.run.model(o.inst, workDir, 5000)
		}
		if m != "" {
			fmt.Fprintf(&sb, "\n--- solver model (%s)\n", firstLine(m))
			sb.WriteString(filterModel(m))
			if ok, txt := tryReplay(e, o, m, repo, verif); ok {
				suffix = "replayed-on-real-code"
				sb.WriteString("\n--- replay on the real code\n" + txt)
			} else if txt != "" {
				sb.WriteString("\n--- replay attempt\n" + txt)
			}
		} else {
			sb.WriteString("\n--- solver output: no model (unknown/timeout on all back ends)\n")
		}
		sb.WriteString("\n--- standalone query\n")
		q := o.run.standalone(o.inst, true)
		if len(q) > 200000 {
			q = q[:200000] + "\n; truncated\n"
		}
		sb.WriteString(q)
	}
	fmt.Fprintf(&sb, "\nresult: %s\n", suffix)
	os.WriteFile(file, []byte(sb.String()), 0o644)
	return suffix
}

func filterModel(m string) string {
	if len(m) > 20000 {
		return m[:20000] + "\n; truncated\n"
	}
	return m
}
