package main

import (
	"fmt"
	"go/types"
	"strings"

	"golang.org/x/tools/go/ssa"
)

var errType = types.Universe.Lookup("error").Type()

func (r *FnRun) ecode(t Term) Term {
	r.declareFun("ecode", []Sort{SInt}, SInt)
	return App("ecode", SInt, t)
}

func (r *FnRun) newErr(st *State, code Term) Val {
	e := r.fresh("err", SInt)
	r.assume(Eq(e, Add(st.top, IntLit(1))))
	st.top = e
	r.assume(Eq(r.ecode(e), code))
	return IfaceVal{T: e}
}

func termOf(v Val) Term {
	switch b := v.(type) {
	case Term:
		return b
	case IfaceVal:
		return b.T
	case PtrVal:
		return b.Ref
	case ClosureVal:
		return b.T
	}
	panic(unsupported{fmt.Sprintf("termOf %T", v)})
}

// atomicField returns a pointer to the value field of an atomic.* receiver.
func (r *FnRun) atomicField(recv Val) (PtrVal, types.Type) {
	p, ok := recv.(PtrVal)
	if !ok {
		unsup("atomic receiver %T", recv)
	}
	i, f := fieldIndex(p.Elem, "v")
	if f == nil {
		unsup("atomic type %s without v field", p.Elem)
	}
	np := p
	np.Elem = f.Type()
	if p.Kind == pkCell {
		np.CPath = append(append([]int(nil), p.CPath...), i)
	} else {
		np.Path = joinPath(p.Path, "v")
	}
	return np, f.Type()
}

// interfere models writes by other goroutines to a monotone atomic.
func (r *FnRun) interfere(st *State, p PtrVal, t types.Type) {
	if p.Kind != pkHeap {
		return
	}
	// "pkg::T.field"
	key := strings.TrimSuffix(p.Path, ".v")
	root := p.Root
	pkg := ""
	if i := strings.LastIndex(root, "."); i >= 0 {
		pkg, root = root[:i], root[i+1:]
	}
	md := r.e.cs.Monotone[pkg+"::"+root+"."+key]
	if md == nil {
		return
	}
	cur := r.load(st, p, "atomic").(Term)
	nv := r.fresh("atom", cur.Sort)
	r.assumeRange(st, nv, t)
	if !md.Free {
		r.assume(Ge(nv, cur))
	}
	if md.Rely != nil {
		r.assume(r.relyHolds(st, md, p, key, nv, pkg))
	}
	r.store(st, p, nv, "atomic")
}

func (r *FnRun) relyHolds(st *State, md *MonoDecl, p PtrVal, key string, nv Term, pkg string) Term {
	owner := p
	owner.Path = strings.TrimSuffix(strings.TrimSuffix(p.Path, "v"), ".")
	owner.Path = strings.TrimSuffix(strings.TrimSuffix(owner.Path, key), ".")
	owner.Elem = r.e.lookupType(pkg, p.Root[strings.LastIndex(p.Root, ".")+1:])
	if owner.Elem == nil {
		unsup("rely: cannot find owner type of %s", p.Root)
	}
	env := &specEnv{st: st, old: st, vars: map[string]Val{"self": owner, "v": nv}, pkg: pkg, what: "rely of " + key}
	if r.guarMode {
		return r.evalBool(md.Guar, env)
	}
	return r.evalBool(md.Rely, env)
}

// modelCall implements hand-written models of library functions. The list is
// part of the trusted base.
func (r *FnRun) modelCall(fr *Frame, st *State, fn *ssa.Function, args []Val, where string, sig *types.Signature) ([]Val, bool) {
	name := fn.String()
	pkg := fnPkgPath(fn)
	switch {
	case strings.HasPrefix(pkg, "github.com/prometheus/"):
		return r.freshResults(st, sig, "prom"), true
	case pkg == "log":
		if strings.HasPrefix(fn.Name(), "Fatal") || strings.HasPrefix(fn.Name(), "Panic") {
			r.assume(TFalse)
		}
		return r.freshResults(st, sig, "log"), true
	}
	switch name {
	case "(*sync.Mutex).Lock", "(*sync.RWMutex).Lock":
		r.lockOp(st, args[0], 2, true, where)
		return nil, true
	case "(*sync.RWMutex).RLock":
		r.lockOp(st, args[0], 1, true, where)
		return nil, true
	case "(*sync.Mutex).Unlock", "(*sync.RWMutex).Unlock":
		r.lockOp(st, args[0], 2, false, where)
		return nil, true
	case "(*sync.RWMutex).RUnlock":
		r.lockOp(st, args[0], 1, false, where)
		return nil, true
	case "(*sync.Once).Do":
		r.note("sync.Once.Do: the callback is not executed by the model")
		return nil, true
	case "(*sync.WaitGroup).Add", "(*sync.WaitGroup).Done", "(*sync.WaitGroup).Wait":
		return nil, true
	case "google.golang.org/grpc/status.Error", "google.golang.org/grpc/status.Errorf":
		return []Val{r.newErr(st, termOf(args[0]))}, true
	case "github.com/buildbarn/bb-storage/pkg/util.StatusWrap", "github.com/buildbarn/bb-storage/pkg/util.StatusWrapf":
		in := termOf(args[0])
		out := r.fresh("werr", SInt)
		nt := r.fresh("top", SInt)
		r.assume(Ge(nt, st.top))
		st.top = nt
		r.assume(Le(out, nt))
		r.assume(Eq(Eq(out, IntLit(0)), Eq(in, IntLit(0))))
		r.assume(Imp(Not(Eq(in, IntLit(0))), Eq(r.ecode(out), r.statusCode(in))))
		return []Val{IfaceVal{T: out}}, true
	case "github.com/buildbarn/bb-storage/pkg/util.StatusWrapWithCode", "github.com/buildbarn/bb-storage/pkg/util.StatusWrapfWithCode":
		in := termOf(args[0])
		out := r.fresh("werr", SInt)
		nt := r.fresh("top", SInt)
		r.assume(Ge(nt, st.top))
		st.top = nt
		r.assume(Le(out, nt))
		r.assume(Eq(Eq(out, IntLit(0)), Eq(in, IntLit(0))))
		r.assume(Imp(Not(Eq(in, IntLit(0))), Eq(r.ecode(out), termOf(args[1]))))
		return []Val{IfaceVal{T: out}}, true
	case "google.golang.org/grpc/status.Code":
		in := termOf(args[0])
		return []Val{r.statusCode(in)}, true
	case "errors.New", "fmt.Errorf":
		e := r.fresh("err", SInt)
		r.assume(Eq(e, Add(st.top, IntLit(1))))
		st.top = e
		r.assume(Eq(r.ecode(e), IntLit(2)))
		return []Val{IfaceVal{T: e}}, true
	case "fmt.Sprintf", "fmt.Sprint":
		return r.freshResults(st, sig, "sprintf"), true
	case "math/bits.Len64":
		if r.bv {
			x := args[0].(Term)
			// Len64(x) = 64 - clz(x): encode by a chain of ites
			res := BVLit(bigInt(0), 64)
			for i := 0; i < 64; i++ {
				bit := App(fmt.Sprintf("(_ extract %d %d)", i, i), SBV(1), x)
				res = Ite(Eq(bit, Term{"#b1", SBV(1)}), BVLit(bigInt(int64(i+1)), 64), res)
			}
			return []Val{r.define("len64", res)}, true
		}
	case "time.Now":
		return r.freshResults(st, sig, "now"), true
	}
	// atomics
	if strings.HasPrefix(name, "(*sync/atomic.") {
		m := fn.Name()
		switch m {
		case "Load":
			p, t := r.atomicField(args[0])
			r.interfere(st, p, t)
			return []Val{r.load(st, p, where)}, true
		case "Store":
			p, t := r.atomicField(args[0])
			r.interfere(st, p, t)
			r.atomicWriteCheck(st, p, args[1], where)
			r.store(st, p, args[1], where)
			return nil, true
		case "Add":
			p, t := r.atomicField(args[0])
			r.interfere(st, p, t)
			cur := r.load(st, p, where)
			nv := r.binop(fr, st, tokenADD, cur, args[1], t, t, t, where)
			r.store(st, p, nv, where)
			return []Val{nv}, true
		case "CompareAndSwap":
			p, t := r.atomicField(args[0])
			r.interfere(st, p, t)
			cur := r.load(st, p, where).(Term)
			okT := r.fresh("cas_ok", SBool)
			// success only if the value matches; may also fail spuriously never (strong CAS)
			r.assume(Eq(okT, Eq(cur, args[1].(Term))))
			r.atomicWriteCheckCond(st, p, okT, args[2], where)
			nv := Ite(okT, args[2].(Term), cur)
			r.store(st, p, r.define("cas", nv), where)
			return []Val{okT}, true
		}
	}
	return nil, false
}

func (r *FnRun) atomicWriteCheck(st *State, p PtrVal, nv Val, where string) {
	r.atomicWriteCheckCond(st, p, TTrue, nv, where)
}

// atomicWriteCheckCond: writes to a monotone atomic must not decrease it.
func (r *FnRun) atomicWriteCheckCond(st *State, p PtrVal, cond Term, nv Val, where string) {
	if p.Kind != pkHeap {
		return
	}
	key := strings.TrimSuffix(p.Path, ".v")
	root := p.Root
	pkg := ""
	if i := strings.LastIndex(root, "."); i >= 0 {
		pkg, root = root[:i], root[i+1:]
	}
	md := r.e.cs.Monotone[pkg+"::"+root+"."+key]
	if md == nil {
		return
	}
	cur := r.load(st, p, where).(Term)
	if !md.Free {
		r.oblige("MONOTONE", where, Imp(cond, Ge(nv.(Term), cur)), st)
	}
	if md.Rely != nil && !md.Free {
		r.guarMode = true
		g := r.relyHolds(st, md, p, key, nv.(Term), pkg)
		r.guarMode = false
		r.oblige("MONOTONE", where+":guarantee", Imp(cond, g), st)
	}
}

func (r *FnRun) statusCode(err Term) Term {
	return Ite(Eq(err, IntLit(0)), IntLit(0), r.ecode(err))
}

// lockOp models sync.Mutex / RWMutex with the ghost array "held".
func (r *FnRun) lockOp(st *State, recv Val, mode int, acquire bool, where string) {
	p, ok := recv.(PtrVal)
	if !ok {
		unsup("lock receiver %T", recv)
	}
	id := r.addrIdent(p)
	g := r.e.cs.Ghosts["held"]
	if g == nil {
		g = &GhostDecl{Name: "held", Arity: 1, Sort: SInt}
		r.e.cs.Ghosts["held"] = g
	}
	arr := r.ghostTerm(st, g)
	cur := Select(arr, id)
	if acquire {
		r.oblige("LOCK", where+":not-held", Eq(cur, IntLit(0)), st)
		na := r.fresh("G_held", arr.Sort)
		r.assume(Eq(na, Store(arr, id, IntLit(int64(mode)))))
		st.ghost["held"] = na
		r.lockAcquired(st, p, id, mode)
	} else {
		r.oblige("LOCK", where+":held", Eq(cur, IntLit(int64(mode))), st)
		r.lockReleasing(st, p, id, mode, where)
		arr = r.ghostTerm(st, g)
		na := r.fresh("G_held", arr.Sort)
		r.assume(Eq(na, Store(arr, id, IntLit(0))))
		st.ghost["held"] = na
	}
}

// builtin implements the Go builtins that appear as callees.
func (r *FnRun) builtin(fr *Frame, st *State, b *ssa.Builtin, c *ssa.CallCommon, where string) []Val {
	args := r.args(fr, st, c)
	switch b.Name() {
	case "ssa:deferstack":
		return []Val{IntLit(0)}
	case "len":
		switch v := args[0].(type) {
		case SliceVal:
			return []Val{r.fromIdx(v.Len, c.Signature().Results().At(0).Type())}
		case Term:
			if v.Sort == SStr {
				n := r.strLen(v)
				r.assume(Ge(n, IntLit(0)))
				return []Val{n}
			}
			if _, ok := under(c.Args[0].Type()).(*types.Map); ok {
				n := r.mapLen(st, v, c.Args[0].Type())
				return []Val{n}
			}
			if _, ok := under(c.Args[0].Type()).(*types.Chan); ok {
				n := r.fresh("chanlen", SInt)
				r.assume(Ge(n, IntLit(0)))
				return []Val{n}
			}
		}
		if a, ok := under(c.Args[0].Type()).(*types.Array); ok {
			return []Val{r.idxLit(a.Len())}
		}
		if pt, ok := under(c.Args[0].Type()).(*types.Pointer); ok {
			if a, ok := under(pt.Elem()).(*types.Array); ok {
				return []Val{r.idxLit(a.Len())}
			}
		}
	case "cap":
		if v, ok := args[0].(SliceVal); ok {
			return []Val{v.Cap}
		}
	case "append":
		return []Val{r.appendOp(st, args[0].(SliceVal), args[1], where)}
	case "copy":
		return []Val{r.copyOp(st, args[0].(SliceVal), args[1], where)}
	case "delete":
		r.mapDelete(st, args[0].(Term), args[1], c.Args[0].Type())
		return nil
	case "close":
		r.closeChan(st, args[0], where)
		return nil
	case "min", "max":
		x, y := args[0].(Term), args[1].(Term)
		var le Term
		if r.bv {
			if isUnsigned(c.Args[0].Type()) {
				le = App("bvule", SBool, x, y)
			} else {
				le = App("bvsle", SBool, x, y)
			}
		} else {
			le = Le(x, y)
		}
		if b.Name() == "min" {
			return []Val{Ite(le, x, y)}
		}
		return []Val{Ite(le, y, x)}
	case "print", "println":
		return nil
	case "recover":
		return []Val{IfaceVal{T: IntLit(0)}}
	case "ssa:wrapnilchk":
		return []Val{args[0]}
	case "clear":
		r.note("clear(): contents havocked")
		r.havocArgs(st, args)
		return nil
	}
	unsup("builtin %s", b.Name())
	return nil
}

func (r *FnRun) fromIdx(t Term, gt types.Type) Term { return t }

func (r *FnRun) closeChan(st *State, ch Val, where string) {
	g := r.e.cs.Ghosts["closed"]
	if g == nil {
		g = &GhostDecl{Name: "closed", Arity: 1, Sort: SBool}
		r.e.cs.Ghosts["closed"] = g
	}
	arr := r.ghostTerm(st, g)
	id := termOf(ch)
	r.oblige("CLOSE", where+":not-closed", Not(Select(arr, id)), st)
	r.oblige("NIL", where, Not(Eq(id, IntLit(0))), st)
	na := r.fresh("G_closed", arr.Sort)
	r.assume(Eq(na, Store(arr, id, TTrue)))
	st.ghost["closed"] = na
}

// appendOp models append(s, t...).
func (r *FnRun) appendOp(st *State, s SliceVal, tv Val, where string) Val {
	var tLen, tBase, tOff Term
	var isStr bool
	switch t := tv.(type) {
	case SliceVal:
		tLen, tBase, tOff = t.Len, t.Base, t.Off
	case Term: // append([]byte, string...)
		tLen = r.strLen(t)
		isStr = true
	default:
		unsup("append of %T", tv)
	}
	newLen := r.define("applen", r.idxAdd(s.Len, tLen))
	if !r.bv {
		r.oblige("OVF", where+":append-len", Le(newLen, BigLit(pow2(62))), st)
	}
	fits := r.idxLe(newLen, s.Cap)
	nb := r.fresh("app_base", SInt)
	r.assume(Eq(nb, Add(st.top, IntLit(1))))
	st.top = nb
	ncap := r.fresh("app_cap", r.idxSort())
	r.assume(r.idxLe(newLen, ncap))
	if !r.bv {
		r.assume(Le(ncap, BigLit(pow2(62))))
	}
	res := SliceVal{
		Base: r.define("abase", Ite(fits, s.Base, nb)), Off: r.define("aoff", Ite(fits, s.Off, r.idxLit(0))),
		Len: newLen, Cap: r.define("acap", Ite(fits, s.Cap, ncap)), Elem: s.Elem,
	}
	if r.bv || !r.contents || !r.contentsFor(s.Elem) {
		r.havocArgs(st, []Val{res})
		return res
	}
	// Contents are tracked for appends of a small literal number of elements
	// (append(s, x)); positions are written with pos()/at(), see slices.go.
	nlit, ok := isLit(tLen)
	if isStr || !ok || nlit.Int64() > 4 {
		r.note("append of a slice of unknown length: contents of the result havocked")
		r.havocArgs(st, []Val{res})
		return res
	}
	// the result's offset: the old one if the elements fit, 0 in a new array
	o2 := r.fresh("app_off", SInt)
	r.declareAt()
	r.assume(Term{fmt.Sprintf("(forall ((i Int)) (! (= (at %s i) (ite %s %s i)) :pattern ((at %s i))))", o2.S, fits.S, r.posStr(s.Off, "i"), o2.S), SBool})
	r.assume(Ge(o2, IntLit(0)))
	res.Off = o2
	var ls []leaf
	r.leafPaths(s.Elem, "", &ls)
	for _, l := range ls {
		key := "[]" + typeKey(s.Elem) + "|" + l.path
		arr := r.elemArr(st, key, l.sort)
		oldA := Select(arr, s.Base)
		tA := Select(arr, tBase)
		// in place: the old array with the new elements stored behind the old ones
		inPlace := oldA
		for j := int64(0); j < nlit.Int64(); j++ {
			inPlace = Store(inPlace, r.pos(s.Off, Add(s.Len, IntLit(j))), Select(tA, r.pos(tOff, IntLit(j))))
		}
		// reallocated: a new array holding a copy of the old elements, then the new ones
		newA := r.fresh("app_elems", SArr(SInt, l.sort))
		r.assume(Term{fmt.Sprintf("(forall ((i Int)) (! (=> (and (<= 0 i) (< i %s)) (= (select %s i) (select %s %s))) :pattern ((select %s i))))",
			s.Len.S, newA.S, oldA.S, r.posStr(s.Off, "i"), newA.S), SBool})
		for j := int64(0); j < nlit.Int64(); j++ {
			r.assume(Eq(Select(newA, Add(s.Len, IntLit(j))), Select(tA, r.pos(tOff, IntLit(j)))))
		}
		na := r.fresh("m_"+shortKey(key), arr.Sort)
		r.assume(Eq(na, Ite(fits, Store(arr, s.Base, inPlace), Store(arr, nb, newA))))
		st.heap[key] = na
	}
	return res
}

func (r *FnRun) copyOp(st *State, dst SliceVal, srcv Val, where string) Val {
	var sLen Term
	var src SliceVal
	isStr := false
	switch s := srcv.(type) {
	case SliceVal:
		sLen = s.Len
		src = s
	case Term:
		sLen = r.strLen(s)
		isStr = true
	}
	n := r.define("copied", Ite(r.idxLe(dst.Len, sLen), dst.Len, sLen))
	if r.bv || isStr || !r.contents || dst.Off.S != "0" || src.Off.S != "0" {
		r.havocArgs(st, []Val{dst})
		return n
	}
	var ls []leaf
	r.leafPaths(dst.Elem, "", &ls)
	for _, l := range ls {
		key := "[]" + typeKey(dst.Elem) + "|" + l.path
		arr := r.elemArr(st, key, l.sort)
		oldA := Select(arr, dst.Base)
		srcA := Select(arr, src.Base)
		newA := r.fresh("cp_elems", SArr(SInt, l.sort))
		r.assume(Term{fmt.Sprintf("(forall ((i Int)) (= (select %s i) (ite (and (<= %s i) (< i (+ %s %s))) (select %s (+ %s (- i %s))) (select %s i))))",
			newA.S, dst.Off.S, dst.Off.S, n.S, srcA.S, src.Off.S, dst.Off.S, oldA.S), SBool})
		na := r.fresh("m_"+shortKey(key), arr.Sort)
		r.assume(Eq(na, Store(arr, dst.Base, newA)))
		st.heap[key] = na
	}
	return n
}

// ------------------------------------------------------------------ maps --

func (r *FnRun) mapKeys(mt types.Type) (ks Sort, vt types.Type) {
	m := under(mt).(*types.Map)
	kt := singleLeaf(m.Key())
	if kt == nil {
		unsup("map with composite key %s", m.Key())
	}
	return r.sortOf(kt), m.Elem()
}

// singleLeaf returns the scalar type a map key boils down to: the key type
// itself, or the only field of a (nested) one-field struct such as
// digest.InstanceName; nil for keys with several components.
func singleLeaf(t types.Type) types.Type {
	for depth := 0; depth < 4; depth++ {
		if isScalarType(t) {
			return t
		}
		st, ok := under(t).(*types.Struct)
		if !ok || st.NumFields() != 1 {
			return nil
		}
		t = st.Field(0).Type()
	}
	return nil
}

// keyTerm is the term a map is indexed with for key value v.
func (r *FnRun) keyTerm(v Val) Term {
	for depth := 0; depth < 4; depth++ {
		sv, ok := v.(*StructVal)
		if !ok || len(sv.F) != 1 {
			break
		}
		v = sv.F[0]
	}
	return r.scalarOf(v)
}

func (r *FnRun) mapDom(st *State, mt types.Type) (string, Term) {
	ks, _ := r.mapKeys(mt)
	key := "map:" + typeKey(mt) + "|dom"
	if t, ok := st.heap[key]; ok {
		return key, t
	}
	name := "MD_" + shortKey(key)
	srt := SArr(SInt, SArr(ks, SBool))
	var t Term
	if st.epoch > 0 || r.isHavocked(st, key) {
		t = r.fresh(name, srt)
	} else {
		r.declareGlobal(name, srt)
		t = Term{name, srt}
	}
	st.heap[key] = t
	return key, t
}

func (r *FnRun) mapValArr(st *State, mt types.Type, path string, s Sort) (string, Term) {
	ks, _ := r.mapKeys(mt)
	key := "map:" + typeKey(mt) + "|val." + path
	if t, ok := st.heap[key]; ok {
		return key, t
	}
	name := "MV_" + shortKey(key)
	srt := SArr(SInt, SArr(ks, s))
	var t Term
	if st.epoch > 0 || r.isHavocked(st, key) {
		t = r.fresh(name, srt)
	} else {
		r.declareGlobal(name, srt)
		t = Term{name, srt}
	}
	st.heap[key] = t
	return key, t
}

func (r *FnRun) mapInit(st *State, m Term, mt types.Type) {
	ks, _ := r.mapKeys(mt)
	key, dom := r.mapDom(st, mt)
	nd := r.fresh("md", dom.Sort)
	r.assume(Eq(nd, Store(dom, m, Term{fmt.Sprintf("((as const %s) false)", SArr(ks, SBool)), SArr(ks, SBool)})))
	st.heap[key] = nd
}

func (r *FnRun) mapLen(st *State, m Term, mt types.Type) Term {
	r.declareFun("maplen", []Sort{SInt, SInt}, SInt)
	_, dom := r.mapDom(st, mt)
	// the length is a function of the domain; we only know it is non-negative
	n := r.fresh("maplen", SInt)
	_ = dom
	r.assume(Ge(n, IntLit(0)))
	r.note("len(map) is an unconstrained non-negative integer")
	return n
}

func (r *FnRun) lookup(fr *Frame, st *State, x *ssa.Lookup) Val {
	if b, ok := under(x.X.Type()).(*types.Basic); ok && b.Info()&types.IsString != 0 {
		s := r.val(fr, st, x.X).(Term)
		idx := r.val(fr, st, x.Index).(Term)
		r.oblige("BOUNDS", r.e.describe(fr.fn, x), And(Le(IntLit(0), idx), Lt(idx, r.strLen(s))), st)
		r.declareFun("sat", []Sort{SStr, SInt}, SInt)
		t := App("sat", SInt, s, idx)
		r.assume(And(Le(IntLit(0), t), Le(t, IntLit(255))))
		return t
	}
	mt := x.X.Type()
	m := termOf(r.val(fr, st, x.X))
	k := r.keyTerm(r.val(fr, st, x.Index))
	_, vt := r.mapKeys(mt)
	_, dom := r.mapDom(st, mt)
	present := Select(Select(dom, m), k)
	v := r.loadTyped(st, vt, "", func(path string, s Sort) Term {
		_, arr := r.mapValArr(st, mt, path, s)
		return Select(Select(arr, m), k)
	})
	// absent keys read as zero
	if t, ok := v.(Term); ok {
		v = Ite(present, t, r.zeroTerm(vt))
	} else if _, ok := v.(PtrVal); ok {
		pv := v.(PtrVal)
		pv.Ref = r.define("mv", Ite(present, pv.Ref, IntLit(0)))
		v = pv
	} else if iv, ok := v.(IfaceVal); ok {
		iv.T = r.define("mv", Ite(present, iv.T, IntLit(0)))
		v = iv
	}
	if x.CommaOk {
		return TupleVal{v, present}
	}
	return v
}

func (r *FnRun) mapUpdate(fr *Frame, st *State, x *ssa.MapUpdate) {
	mt := x.Map.Type()
	m := termOf(r.val(fr, st, x.Map))
	r.oblige("NIL", r.e.describe(fr.fn, x), Not(Eq(m, IntLit(0))), st)
	k := r.keyTerm(r.val(fr, st, x.Key))
	if fr.c != nil && fr.old != nil && len(fr.c.UpdateRequires) > 0 {
		if u, ok := x.Map.(*ssa.UnOp); ok {
			if fa, ok := u.X.(*ssa.FieldAddr); ok {
				if pt, ok := under(fa.X.Type()).(*types.Pointer); ok {
					if stt, ok := under(pt.Elem()).(*types.Struct); ok {
						name := stt.Field(fa.Field).Name()
						for _, cl := range fr.c.UpdateRequires[name] {
							cenv := r.invEnv(fr, st)
							cenv.vars = map[string]Val{}
							for kk, v := range fr.env {
								cenv.vars[kk] = v
							}
							cenv.vars["argkey"] = r.val(fr, st, x.Key)
							cenv.vars["argvalue"] = r.val(fr, st, x.Value)
							cenv.what = "updaterequires " + name + " " + cl.Label
							r.obligeClause("PRE", fmt.Sprintf("update of %s@%s:%s", name, r.e.describe(fr.fn, x), cl.Label), cl.E, cenv, st)
						}
					}
				}
			}
		}
	}
	_, vt := r.mapKeys(mt)
	dk, dom := r.mapDom(st, mt)
	nd := r.fresh("md", dom.Sort)
	r.assume(Eq(nd, Store(dom, m, Store(Select(dom, m), k, TTrue))))
	st.heap[dk] = nd
	r.storeTyped(vt, "", r.val(fr, st, x.Value), func(path string, s Sort, tm Term) {
		vk, arr := r.mapValArr(st, mt, path, s)
		na := r.fresh("mv", arr.Sort)
		r.assume(Eq(na, Store(arr, m, Store(Select(arr, m), k, tm))))
		st.heap[vk] = na
	})
}

func (r *FnRun) mapDelete(st *State, m Term, kv Val, mt types.Type) {
	k := r.keyTerm(kv)
	dk, dom := r.mapDom(st, mt)
	nd := r.fresh("md", dom.Sort)
	r.assume(Eq(nd, Store(dom, m, Store(Select(dom, m), k, TFalse))))
	st.heap[dk] = nd
}

func (r *FnRun) next(fr *Frame, st *State, x *ssa.Next) Val {
	rng := x.Iter.(*ssa.Range)
	okT := r.fresh("next_ok", SBool)
	if x.IsString {
		s := r.val(fr, st, rng.X).(Term)
		i := r.fresh("ri", SInt)
		ch := r.fresh("rune", SInt)
		r.assume(Imp(okT, And(Le(IntLit(0), i), Lt(i, r.strLen(s)), Le(IntLit(0), ch), Le(ch, IntLit(0x10FFFF)))))
		r.note("range over string: indices and runes are arbitrary within bounds")
		return TupleVal{okT, i, ch}
	}
	mt := rng.X.Type()
	m := termOf(r.val(fr, st, rng.X))
	mp := under(mt).(*types.Map)
	kv := r.freshVal(st, mp.Key(), "mk")
	k := r.keyTerm(kv)
	_, dom := r.mapDom(st, mt)
	r.assume(Imp(okT, Select(Select(dom, m), k)))
	// The iteration visits every key once: the set of keys handed out so far is
	// ghost state of the iterator ("visited(m, k)" in loop invariants). When the
	// iteration ends, every key the map had when it began has been handed out —
	// unless the loop itself changes maps of this type (Go then promises less).
	ik := iterKey(rng)
	if vis, ok := st.ghost[ik]; ok {
		r.assume(Imp(okT, Not(Select(vis, k))))
		if !r.loopChangesMap(fr, x, mt) {
			if dom0, ok := st.ghost[ik+"|dom0"]; ok {
				r.ctr++
				q := fmt.Sprintf("q_mk_%d", r.ctr)
				r.assume(Imp(Not(okT), Term{fmt.Sprintf("(forall ((%s %s)) (=> (select %s %s) (select %s %s)))", q, k.Sort, dom0.S, q, vis.S, q), SBool}))
			}
		}
		nv := r.fresh("vis", vis.Sort)
		r.assume(Eq(nv, Ite(okT, Store(vis, k, TTrue), vis)))
		st.ghost[ik] = nv
	}
	v := r.loadTyped(st, mp.Elem(), "", func(path string, s Sort) Term {
		_, arr := r.mapValArr(st, mt, path, s)
		return Select(Select(arr, m), k)
	})
	return TupleVal{okT, kv, v}
}

// iterKey names the ghost state of one map iteration.
func iterKey(rng *ssa.Range) string {
	return fmt.Sprintf("iter#%s#%d", rng.Parent().String(), rng.Pos())
}

// rangeInit starts a map iteration: nothing visited yet, and the key set of
// the map at this moment is remembered.
func (r *FnRun) rangeInit(fr *Frame, st *State, x *ssa.Range) {
	mt := x.X.Type()
	mp, ok := under(mt).(*types.Map)
	if !ok || singleLeaf(mp.Key()) == nil {
		return
	}
	ks, _ := r.mapKeys(mt)
	m := termOf(r.val(fr, st, x.X))
	_, dom := r.mapDom(st, mt)
	srt := SArr(ks, SBool)
	vis := r.fresh("vis", srt)
	r.assume(Eq(vis, Term{fmt.Sprintf("((as const %s) false)", srt), srt}))
	d0 := r.fresh("itdom", srt)
	r.assume(Eq(d0, Select(dom, m)))
	st.ghost[iterKey(x)] = vis
	st.ghost[iterKey(x)+"|dom0"] = d0
}

// loopChangesMap: does a loop around the Next instruction update or delete
// from maps of type mt (or do something whose effect is not known)?
func (r *FnRun) loopChangesMap(fr *Frame, x *ssa.Next, mt types.Type) bool {
	found := false
	for _, l := range fr.loops.list {
		if !l.body[x.Block()] {
			continue
		}
		found = true
		ms := r.e.loopMods(fr.fn, l, r)
		if ms.all {
			return true
		}
		pre := "map:" + typeKey(mt) + "|"
		for k := range ms.keys {
			if strings.HasPrefix(k, pre) {
				return true
			}
		}
	}
	return !found
}

// havocIters forgets how far the map iterations driven from inside loop l have come.
func (r *FnRun) havocIters(fr *Frame, st *State, l *loopT) {
	for _, b := range fr.fn.Blocks {
		if !l.body[b] {
			continue
		}
		for _, in := range b.Instrs {
			nx, ok := in.(*ssa.Next)
			if !ok || nx.IsString {
				continue
			}
			if rng, ok := nx.Iter.(*ssa.Range); ok {
				if vis, ok := st.ghost[iterKey(rng)]; ok {
					st.ghost[iterKey(rng)] = r.fresh("vis", vis.Sort)
				}
			}
		}
	}
}

func (r *FnRun) selectOp(fr *Frame, st *State, x *ssa.Select) Val {
	n := len(x.States)
	idx := r.fresh("sel", SInt)
	lo := int64(0)
	if !x.Blocking {
		lo = -1
	}
	r.assume(And(Le(IntLit(lo), idx), Lt(idx, IntLit(int64(n)))))
	res := TupleVal{idx, r.fresh("recv_ok", SBool)}
	for i, s := range x.States {
		// the chosen case is one channel operation: counted per channel when
		// the contracts declare "ghost recvs(ref) int" / "ghost sends(ref) int"
		chosen := Eq(idx, IntLit(int64(i)))
		if s.Dir == types.RecvOnly {
			r.countChanOp(st, "recvs", r.val(fr, st, s.Chan), chosen)
		} else {
			r.countChanOp(st, "sends", r.val(fr, st, s.Chan), chosen)
		}
	}
	for _, s := range x.States {
		if s.Dir == types.RecvOnly {
			res = append(res, r.freshVal(st, under(s.Chan.Type()).(*types.Chan).Elem(), "recv"))
		}
	}
	r.note("select: any case may be chosen")
	return res
}
