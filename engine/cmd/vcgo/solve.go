package main

import (
	"fmt"
	"os"
	"path/filepath"
	"sync"
	"time"
)

// solverSlots bounds the number of solver processes running at once.
var solverSlots = make(chan struct{}, 14)

func runOne(sp solverSpec, file string, timeoutMs int) (string, int64) {
	solverSlots <- struct{}{}
	defer func() { <-solverSlots }()
	t0 := time.Now()
	out, _ := runSolver(sp, file, timeoutMs, timeoutMs+5000)
	w := firstWords(out)
	res := "unknown"
	if len(w) > 0 {
		res = w[0]
	}
	if res == "timeout" {
		res = "unknown"
	}
	return res, time.Since(t0).Milliseconds()
}

// solveOne discharges one VC: first on the primary solver with a short time
// limit, then — if that did not settle it — on the whole portfolio with the
// full limit, then once more with three times the limit. With allSolvers the VC
// is run on all back ends and a disagreement is reported.
func (r *FnRun) solveOne(o *OblInst, base string, limitMs int, allSolvers bool) {
	qf := fmt.Sprintf("%s.vc%d.smt2", base, o.Seq)
	os.WriteFile(qf, []byte(r.standalone(o, false)), 0o644)
	if o.Cover {
		// vacuity guard: anything but a proof of infeasibility is fine
		res, ms := runOne(solvers[0], qf, 2000)
		o.Result, o.Solver, o.TimeMs = res, solvers[0].name, ms
		if res == "unsat" && o.PreCtx != nil {
			// infeasible after the call: was it feasible before?
			os.WriteFile(qf, []byte(r.standaloneCtx(o.PreCtx)), 0o644)
			if pr, _ := runOne(solvers[0], qf, 2000); pr != "unsat" {
				if pr2, _ := runOne(solvers[2], qf, 2000); pr2 != "unsat" {
					o.Vacuous = true
				}
			}
		}
		os.Remove(qf)
		return
	}
	first := limitMs / 4
	if first < 1500 {
		first = 1500
	}
	res, ms := runOne(solvers[0], qf, first)
	o.Result, o.Solver, o.TimeMs = res, solvers[0].name, ms
	if res == "unsat" && !allSolvers {
		if os.Getenv("VCGO_KEEPALL") == "" {
			os.Remove(qf)
		}
		return
	}
	if o.Kind == "GATE" {
		// a gate that does not go through at once is simply not used
		os.Remove(qf)
		return
	}
	type ans struct {
		res string
		ms  int64
		sp  solverSpec
	}
	ch := make(chan ans, len(solvers))
	n := 0
	for si, sp := range solvers {
		if si == 0 && res != "unknown" && !allSolvers {
			continue
		}
		n++
		go func(sp solverSpec) {
			rr, mm := runOne(sp, qf, limitMs)
			ch <- ans{rr, mm, sp}
		}(sp)
	}
	agreed := res
	for i := 0; i < n; i++ {
		a := <-ch
		if a.res == "unknown" {
			continue
		}
		if agreed == "unknown" {
			agreed = a.res
			o.Solver, o.TimeMs = a.sp.name, a.ms
		} else if agreed != a.res {
			r.note("SOLVER DISAGREEMENT on %s: %s vs %s (%s)", o.Name, agreed, a.res, a.sp.name)
			// a disagreement is never counted as discharged
			agreed = "sat"
		} else if a.res == "unsat" && allSolvers {
			o.Solver += "+" + a.sp.name
		}
	}
	if agreed == "unknown" {
		// no answer within the limit (possibly because the machine was busy):
		// one more attempt with three times the limit
		if rr, mm := runOne(solvers[0], qf, 3*limitMs); rr != "unknown" {
			agreed = rr
			o.Solver, o.TimeMs = solvers[0].name, mm
		}
	}
	o.Result = agreed
	if o.Result == "unsat" {
		os.Remove(qf)
	}
}

// solve discharges every VC as its own query, in parallel. Whole clauses
// (gates) go first; the conjuncts of a clause whose gate was proved need no
// query of their own.
func (r *FnRun) solve(workDir string, limitMs int, allSolvers bool) {
	base := filepath.Join(workDir, sanitize(r.name))
	var wg sync.WaitGroup
	run := func(pick func(o *OblInst) bool) {
		for _, o := range r.obls {
			if o.Static || !pick(o) {
				continue
			}
			wg.Add(1)
			go func(o *OblInst) {
				defer wg.Done()
				r.solveOne(o, base, limitMs, allSolvers)
			}(o)
		}
		wg.Wait()
	}
	run(func(o *OblInst) bool { return o.Gate == nil })
	for _, o := range r.obls {
		if o.Gate != nil && o.Gate.Result == "unsat" && !allSolvers {
			o.Result, o.Solver, o.TimeMs = "unsat", o.Gate.Solver+"(whole clause)", 0
		}
	}
	run(func(o *OblInst) bool { return o.Gate != nil && o.Result == "" })
}
