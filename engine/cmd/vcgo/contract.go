package main

import (
	"bufio"
	"fmt"
	"os"
	"path/filepath"
	"sort"
	"strconv"
	"strings"
)

type Clause struct {
	Label string
	Src   string
	E     SExpr
	Where string // file:line
}

type LoopSpec struct {
	Invs     []Clause
	Modifies []Clause
}

type Contract struct {
	Kind     string // func | iface | extern | lemma
	Name     string // key, see contractKey
	RelName  string
	Pkg      string
	Arith    string
	Requires []Clause
	Ensures  []Clause
	Modifies []Clause
	ModAll   bool
	HasMod   bool
	Loops    map[int]*LoopSpec
	Inline   bool
	Trusted  bool // body not verified (assumed contract on a repo function)
	NoPanic  bool // panics are obligations (default true for func)
	Params   []string
	PTypes   []string
	Where    string
	Consumes []string // parameters of linear type that are NOT consumed (borrowed) are listed in Borrows
	Borrows  []string
	CallAssume map[string][]Clause
	CallRequires map[string][]Clause // obligations of this function at its calls to the named callee
	UpdateRequires map[string][]Clause // obligations at its updates of the map held by the named field
	CallGhost  map[string][]GhostSet
	AtCall     map[string][]GhostSet
	ExitGhost []GhostSet // ghost assignments performed at every return, before the postconditions are checked
	Fresh    bool // results of linear type are fresh owned resources (default true)
	Opts     map[string]string
}

// GhostSet is "g(x) := e when cond".
type GhostSet struct {
	Target, Val, Cond SExpr
	Src               string
}

// MonoDecl declares an atomic field that other goroutines only ever increase,
// optionally bounded by a rely condition over "self" and the new value "v".
type MonoDecl struct {
	Free bool // "atomic": other goroutines may change the value in any way the rely allows (not only upwards)
	Rely SExpr
	Guar SExpr
	Src  string
}

type PureDef struct {
	Name   string
	Params []string
	Body   SExpr
	Src    string
}

type GhostDecl struct {
	Name  string
	Arity int
	Sort  Sort
}

type UFuncDecl struct {
	Name string
	Args []Sort
	Res  Sort
}

type ContractSet struct {
	ByKey    map[string]*Contract
	Pures    map[string]*PureDef
	LockHavoc []string
	RecvHavoc map[string][]string // "pkg::T.ch" -> fields forgotten at a receive
	TypeInvs map[string]*PureDef // "pkgpath.T" -> invariant over self
	TypeSteps map[string]*PureDef // "pkgpath.T" -> two-state invariant over self
	Ghosts   map[string]*GhostDecl
	UFuncs   map[string]*UFuncDecl
	Consts   map[string]SExpr
	Monotone map[string]*MonoDecl // "pkg::T.field"
	Linear   map[string]bool // type names (qualified "pkg.T" or rel)
	Axioms   []Clause
	Files    []string
	Scan     map[string]int // counts of trusted/assumed markers
	Order    []string
}

func newContractSet() *ContractSet {
	cs := newContractSet0()
	// built-in ghost state: lock ownership, closed channels, live linear resources
	cs.Ghosts["held"] = &GhostDecl{Name: "held", Arity: 1, Sort: SInt}
	cs.Ghosts["closed"] = &GhostDecl{Name: "closed", Arity: 1, Sort: SBool}
	cs.Ghosts["live"] = &GhostDecl{Name: "live", Arity: 1, Sort: SInt}
	return cs
}

func newContractSet0() *ContractSet {
	return &ContractSet{
		ByKey: map[string]*Contract{}, Pures: map[string]*PureDef{}, Ghosts: map[string]*GhostDecl{},
		UFuncs: map[string]*UFuncDecl{}, Consts: map[string]SExpr{}, Monotone: map[string]*MonoDecl{},
		Linear: map[string]bool{}, Scan: map[string]int{},
	}
}

func parseSort(s string) Sort {
	switch strings.TrimSpace(s) {
	case "int", "ref", "Int":
		return SInt
	case "bool", "Bool":
		return SBool
	case "str", "string":
		return SStr
	case "real", "float":
		return SReal
	case "bv64":
		return SBV(64)
	case "bv32":
		return SBV(32)
	case "intarr":
		return SArr(SInt, SInt)
	case "boolarr":
		return SArr(SInt, SBool)
	case "u64", "u32", "u16", "u8":
		// machine integers: bit-vectors in bv mode, mathematical integers otherwise
		return Sort("@" + strings.TrimSpace(s))
	}
	panic("unknown sort in contract file: " + s)
}

// loadContractFile parses one contract file. For Go files only lines starting
// with "//@" are considered; for other files every non-empty line that does not
// start with '#'.
func (cs *ContractSet) loadContractFile(path, pkg string) error {
	f, err := os.Open(path)
	if err != nil {
		return err
	}
	defer f.Close()
	cs.Files = append(cs.Files, path)
	isGo := strings.HasSuffix(path, ".go")
	sc := bufio.NewScanner(f)
	sc.Buffer(make([]byte, 1<<20), 1<<20)
	var cur *Contract
	type pending struct {
		kw, rest, where string
	}
	var pend *pending
	flush := func() error {
		if pend == nil {
			return nil
		}
		p := pend
		pend = nil
		return cs.addClause(&cur, pkg, p.kw, strings.TrimSpace(p.rest), p.where)
	}
	lineNo := 0
	for sc.Scan() {
		lineNo++
		line := sc.Text()
		if isGo {
			t := strings.TrimSpace(line)
			if !strings.HasPrefix(t, "//@") {
				continue
			}
			line = strings.TrimPrefix(t, "//@")
		} else {
			if strings.HasPrefix(strings.TrimSpace(line), "#") {
				continue
			}
		}
		if strings.TrimSpace(line) == "" {
			continue
		}
		where := fmt.Sprintf("%s:%d", filepath.Base(path), lineNo)
		t := strings.TrimSpace(line)
		kw := t
		rest := ""
		if i := strings.IndexAny(t, " \t"); i >= 0 {
			kw, rest = t[:i], t[i+1:]
		}
		switch kw {
		case "ghost", "pure", "ufunc", "const", "monotone", "atomic", "linear", "typeinv", "typestep", "lockhavoc", "recvhavoc", "func", "iface", "extern", "lemma", "axiom",
			"arith", "requires", "ensures", "modifies", "loop", "inline", "trusted", "borrows", "opt", "package", "exitghost", "callassume", "callghost", "atcall", "callrequires", "updaterequires":
			if err := flush(); err != nil {
				return err
			}
			pend = &pending{kw, rest, where}
		default:
			if pend == nil {
				return fmt.Errorf("%s: continuation line without clause: %s", where, t)
			}
			pend.rest += " " + t
		}
	}
	if err := flush(); err != nil {
		return err
	}
	return sc.Err()
}

func splitLabel(rest string) (string, string) {
	rest = strings.TrimSpace(rest)
	if strings.HasPrefix(rest, "[") {
		if i := strings.Index(rest, "]"); i > 0 {
			// a label is an identifier-like token; index expressions never start a clause
			lbl := rest[1:i]
			ok := lbl != ""
			for _, c := range lbl {
				if !(c == '_' || c == '-' || c == '.' || (c >= '0' && c <= '9') || (c >= 'a' && c <= 'z') || (c >= 'A' && c <= 'Z')) {
					ok = false
				}
			}
			if ok {
				return lbl, strings.TrimSpace(rest[i+1:])
			}
		}
	}
	return "", rest
}

func mkClause(rest, where string, n int, prefix string) (Clause, error) {
	lbl, src := splitLabel(rest)
	e, err := parseSpec(src)
	if err != nil {
		return Clause{}, fmt.Errorf("%s: %v", where, err)
	}
	if lbl == "" {
		lbl = fmt.Sprintf("%s%d", prefix, n)
	}
	return Clause{Label: lbl, Src: src, E: e, Where: where}, nil
}

func parseParamList(s string) ([]string, []string) {
	var names, types []string
	for _, p := range strings.Split(s, ",") {
		p = strings.TrimSpace(p)
		if p == "" {
			continue
		}
		f := strings.Fields(p)
		names = append(names, f[0])
		if len(f) > 1 {
			types = append(types, f[1])
		} else {
			types = append(types, "int")
		}
	}
	return names, types
}

func (cs *ContractSet) addClause(cur **Contract, pkg, kw, rest, where string) error {
	switch kw {
	case "package":
		return nil
	case "ghost":
		// ghost name(ref) sort | ghost name sort
		g := &GhostDecl{}
		if i := strings.Index(rest, "("); i >= 0 {
			j := strings.Index(rest, ")")
			g.Name = strings.TrimSpace(rest[:i])
			g.Arity = len(strings.Split(rest[i+1:j], ","))
			g.Sort = parseSort(rest[j+1:])
		} else {
			f := strings.Fields(rest)
			g.Name = f[0]
			g.Sort = parseSort(f[1])
		}
		cs.Ghosts[g.Name] = g
		*cur = nil
	case "ufunc":
		i := strings.Index(rest, "(")
		j := strings.LastIndex(rest, ")")
		u := &UFuncDecl{Name: strings.TrimSpace(rest[:i]), Res: parseSort(rest[j+1:])}
		for _, a := range strings.Split(rest[i+1:j], ",") {
			if strings.TrimSpace(a) != "" {
				u.Args = append(u.Args, parseSort(a))
			}
		}
		cs.UFuncs[u.Name] = u
		*cur = nil
	case "pure":
		i := strings.Index(rest, "(")
		j := strings.Index(rest, ")")
		k := strings.Index(rest, "=")
		if i < 0 || j < 0 || k < j {
			return fmt.Errorf("%s: malformed pure definition", where)
		}
		names, _ := parseParamList(rest[i+1 : j])
		body, err := parseSpec(rest[k+1:])
		if err != nil {
			return fmt.Errorf("%s: %v", where, err)
		}
		name := strings.TrimSpace(rest[:i])
		cs.Pures[name] = &PureDef{Name: name, Params: names, Body: body, Src: rest[k+1:]}
		*cur = nil
	case "recvhavoc":
		// recvhavoc T.ch f1 f2: a receive from field ch of an object of type T
		// synchronises with the goroutine that owns the object's fields f1, f2:
		// their values before the receive say nothing about their values after
		f := strings.Fields(rest)
		if len(f) < 2 {
			return fmt.Errorf("%s: malformed recvhavoc", where)
		}
		if cs.RecvHavoc == nil {
			cs.RecvHavoc = map[string][]string{}
		}
		cs.RecvHavoc[pkg+"::"+f[0]] = append(cs.RecvHavoc[pkg+"::"+f[0]], f[1:]...)
		*cur = nil
	case "lockhavoc":
		// ghost state that is only meaningful within one lock hold
		for _, n := range strings.Split(rest, ",") {
			if n = strings.TrimSpace(n); n != "" {
				if strings.HasPrefix(n, "map:") {
					// "map:T.f": the map held by field f of T is shared under T's
					// lock; other goroutines may have changed it between two holds
					n = "map:" + pkg + "::" + strings.TrimPrefix(n, "map:")
				}
				cs.LockHavoc = append(cs.LockHavoc, n)
			}
		}
		*cur = nil
	case "typeinv", "typestep":
		// typeinv T(self) = expr : invariant of objects of named type T, referred to as tinv(x)
		i := strings.Index(rest, "(")
		j := strings.Index(rest, ")")
		k := strings.Index(rest, "=")
		if i < 0 || j < 0 || k < j {
			return fmt.Errorf("%s: malformed typeinv", where)
		}
		names, _ := parseParamList(rest[i+1 : j])
		body, err := parseSpec(rest[k+1:])
		if err != nil {
			return fmt.Errorf("%s: %v", where, err)
		}
		tn := strings.TrimSpace(rest[:i])
		if !strings.Contains(tn, ".") {
			tn = pkg + "." + tn
		}
		if cs.TypeInvs == nil {
			cs.TypeInvs = map[string]*PureDef{}
			cs.TypeSteps = map[string]*PureDef{}
		}
		if kw == "typestep" {
			// two-state invariant (may use old()): a reflexive, transitive relation
			// every method of the type establishes between its pre- and post-state
			cs.TypeSteps[tn] = &PureDef{Name: tn, Params: names, Body: body, Src: rest[k+1:]}
		} else {
			cs.TypeInvs[tn] = &PureDef{Name: tn, Params: names, Body: body, Src: rest[k+1:]}
		}
		*cur = nil
	case "const":
		k := strings.Index(rest, "=")
		body, err := parseSpec(rest[k+1:])
		if err != nil {
			return fmt.Errorf("%s: %v", where, err)
		}
		cs.Consts[strings.TrimSpace(rest[:k])] = body
		*cur = nil
	case "monotone", "atomic":
		md := &MonoDecl{Free: kw == "atomic"}
		name := strings.TrimSpace(rest)
		if i := strings.Index(rest, " rely "); i >= 0 {
			name = strings.TrimSpace(rest[:i])
			relySrc := rest[i+6:]
			// "rely R guar G": R is assumed of other goroutines' writes, G is
			// checked on this code's own writes (default G = R)
			if j := strings.Index(relySrc, " guar "); j >= 0 {
				g, err := parseSpec(relySrc[j+6:])
				if err != nil {
					return fmt.Errorf("%s: %v", where, err)
				}
				md.Guar = g
				relySrc = relySrc[:j]
			}
			e, err := parseSpec(relySrc)
			if err != nil {
				return fmt.Errorf("%s: %v", where, err)
			}
			md.Rely = e
			if md.Guar == nil {
				md.Guar = e
			}
			md.Src = rest[i+6:]
		}
		cs.Monotone[pkg+"::"+name] = md
		*cur = nil
	case "linear":
		for _, t := range strings.Split(rest, ",") {
			t = strings.TrimSpace(t)
			if !strings.Contains(t, ".") {
				t = pkg + "." + t
			}
			cs.Linear[t] = true
		}
		*cur = nil
	case "axiom":
		c, err := mkClause(rest, where, len(cs.Axioms), "ax")
		if err != nil {
			return err
		}
		cs.Axioms = append(cs.Axioms, c)
		*cur = nil
	case "func", "iface", "extern", "lemma":
		c := &Contract{Kind: kw, Pkg: pkg, Loops: map[int]*LoopSpec{}, Where: where, NoPanic: true, Opts: map[string]string{}}
		name := strings.TrimSpace(rest)
		if kw == "lemma" {
			i := strings.Index(name, "(")
			j := strings.LastIndex(name, ")")
			if i >= 0 && j > i {
				c.Params, c.PTypes = parseParamList(name[i+1 : j])
				name = strings.TrimSpace(name[:i])
			}
		}
		c.RelName = name
		if kw == "extern" {
			c.Name = name
			c.Trusted = true
			cs.Scan["extern"]++
		} else {
			c.Name = pkg + "::" + name
		}
		if kw == "iface" {
			cs.Scan["iface"]++
		}
		if _, dup := cs.ByKey[c.Name]; dup {
			return fmt.Errorf("%s: duplicate contract for %s", where, c.Name)
		}
		cs.ByKey[c.Name] = c
		cs.Order = append(cs.Order, c.Name)
		*cur = c
	default:
		c := *cur
		if c == nil {
			return fmt.Errorf("%s: clause %q outside a contract block", where, kw)
		}
		switch kw {
		case "arith":
			c.Arith = strings.TrimSpace(rest)
		case "inline":
			c.Inline = true
		case "trusted":
			c.Trusted = true
			cs.Scan["trusted"]++
		case "opt":
			f := strings.Fields(rest)
			if len(f) == 1 {
				c.Opts[f[0]] = "true"
			} else {
				c.Opts[f[0]] = strings.Join(f[1:], " ")
			}
		case "callghost":
			// callghost <callee> g(x) := e : ghost initialisation of an object this
			// function has just allocated, performed right before it is handed to
			// <callee>; x and e are written over the callee's parameter names. It
			// takes effect only if x is fresh (allocated during this call).
			f := strings.Fields(rest)
			body := strings.TrimSpace(strings.TrimPrefix(rest, f[0]))
			i := strings.Index(body, ":=")
			if len(f) < 2 || i < 0 {
				return fmt.Errorf("%s: malformed callghost", where)
			}
			tgt, err := parseSpec(body[:i])
			if err != nil {
				return fmt.Errorf("%s: %v", where, err)
			}
			val, err := parseSpec(body[i+2:])
			if err != nil {
				return fmt.Errorf("%s: %v", where, err)
			}
			call, ok := tgt.(SCall)
			if !ok || len(call.Args) == 0 {
				return fmt.Errorf("%s: callghost target must be g(x)", where)
			}
			if c.CallGhost == nil {
				c.CallGhost = map[string][]GhostSet{}
			}
			c.CallGhost[f[0]] = append(c.CallGhost[f[0]], GhostSet{Target: tgt, Val: val, Cond: SCall{Fun: "fresh", Args: []SExpr{call.Args[0]}}, Src: body})
		case "atcall":
			// atcall <callee> g(x) := e : a history (ghost) update this function
			// performs right before each of its calls to <callee>; x and e are
			// written over this function's own parameters and locals.
			f := strings.Fields(rest)
			body := strings.TrimSpace(strings.TrimPrefix(rest, f[0]))
			i := strings.Index(body, ":=")
			if len(f) < 2 || i < 0 {
				return fmt.Errorf("%s: malformed atcall", where)
			}
			tgt, err := parseSpec(body[:i])
			if err != nil {
				return fmt.Errorf("%s: %v", where, err)
			}
			val, err := parseSpec(body[i+2:])
			if err != nil {
				return fmt.Errorf("%s: %v", where, err)
			}
			if c.AtCall == nil {
				c.AtCall = map[string][]GhostSet{}
			}
			c.AtCall[f[0]] = append(c.AtCall[f[0]], GhostSet{Target: tgt, Val: val, Cond: SIdent{Name: "true"}, Src: body})
		case "updaterequires":
			// updaterequires <field> [label] <expr>: an OBLIGATION of this function
			// at each of its assignments m[k] = v where m is the map held by the
			// struct field <field>; written over its own parameters and locals and
			// over argkey, argvalue
			f := strings.Fields(rest)
			if len(f) < 2 {
				return fmt.Errorf("%s: malformed updaterequires", where)
			}
			if c.UpdateRequires == nil {
				c.UpdateRequires = map[string][]Clause{}
			}
			cl, err := mkClause(strings.TrimSpace(strings.TrimPrefix(rest, f[0])), where, len(c.UpdateRequires[f[0]]), "updreq")
			if err != nil {
				return err
			}
			c.UpdateRequires[f[0]] = append(c.UpdateRequires[f[0]], cl)
		case "callrequires":
			// callrequires <callee> [label] <expr>: an OBLIGATION of this function at
			// each of its calls to <callee>, written over its own parameters and
			// locals and over arg0, arg1, … (the call's arguments, receiver first)
			f := strings.Fields(rest)
			if len(f) < 2 {
				return fmt.Errorf("%s: malformed callrequires", where)
			}
			if c.CallRequires == nil {
				c.CallRequires = map[string][]Clause{}
			}
			cl, err := mkClause(strings.TrimSpace(strings.TrimPrefix(rest, f[0])), where, len(c.CallRequires[f[0]]), "callreq")
			if err != nil {
				return err
			}
			c.CallRequires[f[0]] = append(c.CallRequires[f[0]], cl)
		case "callassume":
			// callassume <callee> <expr>: an ASSUMPTION made just before calls to
			// <callee> inside this function (facts the verifier cannot derive,
			// e.g. that a callback has run); listed in the evidence.
			f := strings.Fields(rest)
			if len(f) < 2 {
				return fmt.Errorf("%s: malformed callassume", where)
			}
			cl, err := mkClause(strings.TrimSpace(strings.TrimPrefix(rest, f[0])), where, 0, "assume")
			if err != nil {
				return err
			}
			if c.CallAssume == nil {
				c.CallAssume = map[string][]Clause{}
			}
			c.CallAssume[f[0]] = append(c.CallAssume[f[0]], cl)
			cs.Scan["callassume"]++
		case "exitghost":
			// exitghost g(x) := e [when cond]
			i := strings.Index(rest, ":=")
			if i < 0 {
				return fmt.Errorf("%s: exitghost needs :=", where)
			}
			tgt, err := parseSpec(rest[:i])
			if err != nil {
				return fmt.Errorf("%s: %v", where, err)
			}
			valSrc, condSrc := rest[i+2:], "true"
			if j := strings.Index(valSrc, " when "); j >= 0 {
				valSrc, condSrc = valSrc[:j], valSrc[j+6:]
			}
			val, err := parseSpec(valSrc)
			if err != nil {
				return fmt.Errorf("%s: %v", where, err)
			}
			cond, err := parseSpec(condSrc)
			if err != nil {
				return fmt.Errorf("%s: %v", where, err)
			}
			c.ExitGhost = append(c.ExitGhost, GhostSet{Target: tgt, Val: val, Cond: cond, Src: rest})
		case "borrows":
			for _, p := range strings.Split(rest, ",") {
				c.Borrows = append(c.Borrows, strings.TrimSpace(p))
			}
		case "requires":
			cl, err := mkClause(rest, where, len(c.Requires), "pre")
			if err != nil {
				return err
			}
			c.Requires = append(c.Requires, cl)
		case "ensures":
			cl, err := mkClause(rest, where, len(c.Ensures), "post")
			if err != nil {
				return err
			}
			c.Ensures = append(c.Ensures, cl)
		case "modifies":
			c.HasMod = true
			for _, m := range splitTop(rest) {
				m = strings.TrimSpace(m)
				if m == "" || m == "nothing" {
					continue
				}
				if m == "*" {
					c.ModAll = true
					continue
				}
				cl, err := mkClause(m, where, len(c.Modifies), "mod")
				if err != nil {
					return err
				}
				c.Modifies = append(c.Modifies, cl)
			}
		case "loop":
			f := strings.Fields(rest)
			if len(f) < 2 {
				return fmt.Errorf("%s: malformed loop clause", where)
			}
			n, err := strconv.Atoi(strings.TrimSuffix(f[0], ":"))
			if err != nil {
				return fmt.Errorf("%s: loop ordinal: %v", where, err)
			}
			ls := c.Loops[n]
			if ls == nil {
				ls = &LoopSpec{}
				c.Loops[n] = ls
			}
			body := strings.TrimSpace(strings.TrimPrefix(strings.TrimSpace(rest), f[0]))
			sub := strings.Fields(body)[0]
			body = strings.TrimSpace(strings.TrimPrefix(body, sub))
			switch sub {
			case "invariant":
				cl, err := mkClause(body, where, len(ls.Invs), "inv")
				if err != nil {
					return err
				}
				ls.Invs = append(ls.Invs, cl)
			case "modifies":
				for _, m := range splitTop(body) {
					m = strings.TrimSpace(m)
					if m == "" {
						continue
					}
					cl, err := mkClause(m, where, len(ls.Modifies), "mod")
					if err != nil {
						return err
					}
					ls.Modifies = append(ls.Modifies, cl)
				}
			case "decreases":
				// documentation only
			default:
				return fmt.Errorf("%s: unknown loop clause %q", where, sub)
			}
		}
	}
	return nil
}

// splitTop splits on commas that are not nested in parentheses or brackets.
func splitTop(s string) []string {
	var out []string
	depth := 0
	start := 0
	for i, c := range s {
		switch c {
		case '(', '[':
			depth++
		case ')', ']':
			depth--
		case ',':
			if depth == 0 {
				out = append(out, s[start:i])
				start = i + 1
			}
		}
	}
	out = append(out, s[start:])
	return out
}

func (cs *ContractSet) sortedKeys() []string {
	var ks []string
	for k := range cs.ByKey {
		ks = append(ks, k)
	}
	sort.Strings(ks)
	return ks
}
