package main

import (
	"encoding/json"
	"fmt"
	"os"
	"os/exec"
	"path/filepath"
	"regexp"
	"strconv"
	"strings"
	"time"
)

// BoundedSpec describes a bounded stand-in: an exhaustive execution of the REAL
// functions named in Covers over a small stated space, for functions the
// contract verifier cannot reach. It is labelled bounded everywhere and is
// never counted among the discharged obligations.
type BoundedSpec struct {
	Name     string   `json:"name"`
	Pkg      string   `json:"pkg"`       // package directory relative to the repository, e.g. "pkg/digest"
	TestFile string   `json:"test_file"` // relative to /verif; injected into the package through a build overlay
	Run      string   `json:"run"`       // -run regexp
	Bound    string   `json:"bound"`
	Covers   []string `json:"covers"`
	Why      string   `json:"why"`
}

var boundedEvalRe = regexp.MustCompile(`(?m)^BOUNDED-EVALUATIONS (\d+) (.*)$`)

// runBounded executes one stand-in against the repository working tree. Nothing
// is written into the repository: the test file and the hiding of the package's
// own tests (they need generated mocks) go through -overlay.
func runBounded(repo, verif string, b BoundedSpec) (ok bool, evaluations int, groups []string, transcript string) {
	pkgDir := filepath.Join(repo, b.Pkg)
	tmp, err := os.MkdirTemp("", "vcgo-bounded-")
	if err != nil {
		return false, 0, nil, "cannot create a scratch directory: " + err.Error()
	}
	defer os.RemoveAll(tmp)
	rep := map[string]string{}
	if ms, _ := filepath.Glob(filepath.Join(pkgDir, "*_test.go")); ms != nil {
		for _, m := range ms {
			rep[m] = ""
		}
	}
	rep[filepath.Join(pkgDir, "zz_vcgo_bounded_test.go")] = filepath.Join(verif, b.TestFile)
	ov, _ := json.Marshal(map[string]interface{}{"Replace": rep})
	ovf := filepath.Join(tmp, "overlay.json")
	os.WriteFile(ovf, ov, 0o644)
	cmd := exec.Command("go", "test", "-overlay", ovf, "-vet=off", "-count=1", "-timeout", "600s", "-v", "-run", b.Run, ".")
	cmd.Dir = pkgDir
	done := make(chan struct{})
	var out []byte
	var runErr error
	go func() { out, runErr = cmd.CombinedOutput(); close(done) }()
	select {
	case <-done:
	case <-time.After(660 * time.Second):
		if cmd.Process != nil {
			cmd.Process.Kill()
		}
		return false, 0, nil, "bounded stand-in did not finish within 660 s"
	}
	text := string(out)
	for _, m := range boundedEvalRe.FindAllStringSubmatch(text, -1) {
		n, _ := strconv.Atoi(m[1])
		evaluations += n
		groups = append(groups, fmt.Sprintf("%s: %d cases", m[2], n))
	}
	if len(text) > 6000 {
		text = text[:6000]
	}
	if runErr != nil || strings.Contains(text, "BOUNDED-VIOLATION") || evaluations == 0 {
		return false, evaluations, groups, text
	}
	return true, evaluations, groups, text
}
