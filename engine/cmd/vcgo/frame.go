package main

import (
	"fmt"
	"go/token"
	"go/types"
	"sort"
	"strings"

	"golang.org/x/tools/go/ssa"
)

// Read-set scan: which memory does a function's result depend on?
//
// A contract may say "opt deterministic f(e1, ..., en)" where the ei are
// parameters (p) or field paths of parameters (p.a.b). The generator then
// checks syntactically (FRAME obligation) that every load in the function and
// in the repository callees it reaches goes through one of the listed paths,
// that there are no stores outside locals, no calls with unknown effects, and
// that fields read through a whole-object argument (a bare parameter) are
// written nowhere in the package except on freshly allocated objects. Callers
// may then assume result == f(e1, ..., en).

type readScan struct {
	e     *Engine
	reads map[string]bool
	bad   []string
	depth int
}

// origin names the memory location an address value denotes, in terms of the
// function's parameters, or "?"/"local".
func (rs *readScan) origin(v ssa.Value, env map[ssa.Value]string) string {
	if s, ok := env[v]; ok {
		return s
	}
	switch x := v.(type) {
	case *ssa.Parameter:
		return x.Name()
	case *ssa.FreeVar:
		return "?freevar"
	case *ssa.Alloc:
		return "local"
	case *ssa.Global:
		return "global:" + x.Name()
	case *ssa.FieldAddr:
		b := rs.origin(x.X, env)
		stt := under(x.X.Type().(*types.Pointer).Elem()).(*types.Struct)
		if b == "local" {
			return "local"
		}
		return b + "." + stt.Field(x.Field).Name()
	case *ssa.IndexAddr:
		b := rs.origin(x.X, env)
		if b == "local" {
			return "local"
		}
		return b + "[]"
	case *ssa.UnOp:
		if x.Op == token.MUL {
			// value loaded from an address: if the address is a parameter
			// spill cell, the value is the parameter
			if a, ok := x.X.(*ssa.Alloc); ok {
				if p := spilledParam(a); p != "" {
					return p
				}
				return "local"
			}
			return rs.origin(x.X, env)
		}
	case *ssa.Slice:
		return rs.origin(x.X, env)
	case *ssa.Const:
		return "const"
	case *ssa.ChangeType:
		return rs.origin(x.X, env)
	case *ssa.Convert:
		return rs.origin(x.X, env)
	case *ssa.Phi:
		return "local"
	}
	return "?"
}

// spilledParam returns the parameter whose value the cell holds if the cell is
// only ever assigned that parameter.
func spilledParam(a *ssa.Alloc) string {
	name := ""
	refs := a.Referrers()
	if refs == nil {
		return ""
	}
	for _, r := range *refs {
		if st, ok := r.(*ssa.Store); ok && st.Addr == a {
			p, ok := st.Val.(*ssa.Parameter)
			if !ok {
				return ""
			}
			if name != "" && name != p.Name() {
				return ""
			}
			name = p.Name()
		}
	}
	return name
}

func (rs *readScan) scan(fn *ssa.Function, env map[ssa.Value]string) {
	if rs.depth > 6 {
		rs.bad = append(rs.bad, "call depth")
		return
	}
	for _, b := range fn.Blocks {
		for _, in := range b.Instrs {
			switch x := in.(type) {
			case *ssa.UnOp:
				if x.Op == token.MUL {
					if _, isAlloc := x.X.(*ssa.Alloc); isAlloc {
						continue
					}
					o := rs.origin(x.X, env)
					if o == "local" || strings.HasPrefix(o, "global:") || o == "const" {
						continue
					}
					rs.reads[o] = true
				}
				if x.Op == token.ARROW {
					rs.bad = append(rs.bad, "channel receive")
				}
			case *ssa.Store:
				if o := rs.origin(x.Addr, env); o != "local" {
					rs.bad = append(rs.bad, "store to "+o)
				}
			case *ssa.Lookup:
				rs.reads[rs.origin(x.X, env)+"[]"] = true
			case *ssa.Range:
				rs.reads[rs.origin(x.X, env)+"[]"] = true
			case *ssa.Call:
				if bi, ok := x.Call.Value.(*ssa.Builtin); ok {
					switch bi.Name() {
					case "len", "cap", "min", "max", "ssa:deferstack":
					default:
						rs.bad = append(rs.bad, "builtin "+bi.Name())
					}
					continue
				}
				callee := x.Call.StaticCallee()
				if callee == nil {
					rs.bad = append(rs.bad, "dynamic call")
					continue
				}
				switch callee.String() {
				case "math/bits.Len64", "math/bits.Len", "math/bits.LeadingZeros64":
					continue
				}
				if !inRepo(fnPkgPath(callee)) || len(callee.Blocks) == 0 {
					if strings.HasPrefix(callee.String(), "(encoding/binary.bigEndian).Uint") || strings.HasPrefix(callee.String(), "(encoding/binary.littleEndian).Uint") {
						for _, a := range x.Call.Args[1:] {
							rs.reads[rs.origin(a, env)+"[]"] = true
						}
						continue
					}
					rs.bad = append(rs.bad, "call to "+callee.String())
					continue
				}
				sub := map[ssa.Value]string{}
				for i, p := range callee.Params {
					if i < len(x.Call.Args) {
						sub[p] = rs.origin(x.Call.Args[i], env)
					}
				}
				inner := &readScan{e: rs.e, reads: rs.reads, depth: rs.depth + 1}
				// parameter spill cells of the callee resolve through sub
				env2 := map[ssa.Value]string{}
				for k, v := range sub {
					env2[k] = v
				}
				inner.scanWithParams(callee, env2)
				rs.bad = append(rs.bad, inner.bad...)
			case *ssa.Go, *ssa.Defer, *ssa.Send, *ssa.MapUpdate, *ssa.Select, *ssa.MakeChan, *ssa.MakeClosure:
				rs.bad = append(rs.bad, fmt.Sprintf("%T", in))
			}
		}
	}
}

// scanWithParams scans a callee whose parameters are bound to origins of the
// caller; loads of its parameter spill cells resolve to those origins.
func (rs *readScan) scanWithParams(fn *ssa.Function, env map[ssa.Value]string) {
	// map spill cells to the bound origin
	for _, b := range fn.Blocks {
		for _, in := range b.Instrs {
			if st, ok := in.(*ssa.Store); ok {
				if a, ok := st.Addr.(*ssa.Alloc); ok {
					if p, ok := st.Val.(*ssa.Parameter); ok && spilledParam(a) == p.Name() {
						if o, ok := env[p]; ok {
							// loads of this cell yield the origin
							if refs := a.Referrers(); refs != nil {
								for _, r := range *refs {
									if u, ok := r.(*ssa.UnOp); ok && u.Op == token.MUL && u.X == a {
										env[u] = o
									}
								}
							}
						}
					}
				}
			}
		}
	}
	rs.scan(fn, env)
}

// initOnly reports whether field f of struct type T is assigned nowhere in its
// package except on objects allocated in the same function.
func (e *Engine) initOnly(t types.Type, field string) string {
	n, ok := types.Unalias(t).(*types.Named)
	if !ok || n.Obj().Pkg() == nil {
		return "not a named type"
	}
	p := e.pkgs[n.Obj().Pkg().Path()]
	if p == nil {
		return "package not loaded"
	}
	var fns []*ssa.Function
	var add func(f *ssa.Function)
	add = func(f *ssa.Function) {
		if f == nil {
			return
		}
		fns = append(fns, f)
		for _, a := range f.AnonFuncs {
			add(a)
		}
	}
	for _, m := range p.Members {
		switch x := m.(type) {
		case *ssa.Function:
			add(x)
		case *ssa.Type:
			for _, tt := range []types.Type{x.Type(), types.NewPointer(x.Type())} {
				ms := e.prog.MethodSets.MethodSet(tt)
				for i := 0; i < ms.Len(); i++ {
					add(e.prog.MethodValue(ms.At(i)))
				}
			}
		}
	}
	for _, f := range fns {
		for _, b := range f.Blocks {
			for _, in := range b.Instrs {
				st, ok := in.(*ssa.Store)
				if !ok {
					continue
				}
				fa, ok := st.Addr.(*ssa.FieldAddr)
				if !ok {
					continue
				}
				pt := fa.X.Type().(*types.Pointer).Elem()
				if !types.Identical(pt, t) {
					continue
				}
				stt := under(pt).(*types.Struct)
				if stt.Field(fa.Field).Name() != field {
					continue
				}
				if _, fresh := fa.X.(*ssa.Alloc); !fresh {
					return "assigned in " + relName(f)
				}
			}
		}
	}
	return ""
}

// splitDeterministic parses "f" or "f(a, b.c, d)".
func splitDeterministic(s string) (string, []string) {
	s = strings.TrimSpace(s)
	i := strings.Index(s, "(")
	if i < 0 {
		return s, nil
	}
	j := strings.LastIndex(s, ")")
	var args []string
	for _, a := range splitTop(s[i+1 : j]) {
		if strings.TrimSpace(a) != "" {
			args = append(args, strings.TrimSpace(a))
		}
	}
	return strings.TrimSpace(s[:i]), args
}

// deterministicScan checks "opt deterministic f(args)". Returns "" if the
// result depends only on the listed arguments.
func (e *Engine) deterministicScan(fn *ssa.Function, args []string) string {
	rs := &readScan{e: e, reads: map[string]bool{}}
	rs.scanWithParams(fn, map[ssa.Value]string{})
	if len(rs.bad) > 0 {
		return rs.bad[0]
	}
	var reads []string
	for r := range rs.reads {
		reads = append(reads, r)
	}
	sort.Strings(reads)
	paramType := map[string]types.Type{}
	for _, p := range fn.Params {
		paramType[p.Name()] = p.Type()
	}
	for _, rd := range reads {
		ok := false
		for _, a := range args {
			a = strings.TrimSpace(a)
			if rd == a || strings.HasPrefix(rd, a+".") || strings.HasPrefix(rd, a+"[]") {
				ok = true
				// whole-object argument: the field must be init-only
				if pt, isParam := paramType[a]; isParam && strings.HasPrefix(rd, a+".") {
					if ptr, isPtr := under(pt).(*types.Pointer); isPtr {
						f := strings.TrimPrefix(rd, a+".")
						if i := strings.IndexAny(f, ".["); i >= 0 {
							f = f[:i]
						}
						if why := e.initOnly(ptr.Elem(), f); why != "" {
							return fmt.Sprintf("field %s.%s is %s", a, f, why)
						}
					}
				}
			}
		}
		if !ok {
			return "reads " + rd + " which is not among the declared arguments"
		}
	}
	return ""
}

// freeVarReadOnly reports whether a closure uses a captured variable only by
// loading from it (directly, or by handing it to nested closures that do the
// same). Any other use — a store, taking a field address that is stored to,
// passing the pointer on — counts as a possible write.
func freeVarReadOnly(fv *ssa.FreeVar, depth int) bool {
	if depth > 4 || fv.Referrers() == nil {
		return false
	}
	var ok func(v ssa.Value, depth int) bool
	ok = func(v ssa.Value, depth int) bool {
		refs := v.Referrers()
		if refs == nil {
			return false
		}
		for _, in := range *refs {
			switch x := in.(type) {
			case *ssa.UnOp:
				if x.Op != token.MUL || x.X != v {
					return false
				}
			case *ssa.FieldAddr:
				// address of a field of the captured struct: same rules
				if x.X != v || !ok(x, depth) {
					return false
				}
			case *ssa.MakeClosure:
				cfn, isFn := x.Fn.(*ssa.Function)
				if !isFn {
					return false
				}
				for i, b := range x.Bindings {
					if b == v {
						if i >= len(cfn.FreeVars) || !freeVarReadOnly(cfn.FreeVars[i], depth+1) {
							return false
						}
					}
				}
			case *ssa.DebugRef:
			default:
				return false
			}
		}
		return true
	}
	return ok(fv, depth)
}
