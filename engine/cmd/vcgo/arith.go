package main

import (
	"fmt"
	"go/token"
	"go/types"
	"math/big"
	"strings"
)

func isLit(t Term) (*big.Int, bool) {
	s := t.S
	neg := false
	if strings.HasPrefix(s, "(- ") && strings.HasSuffix(s, ")") {
		neg = true
		s = s[3 : len(s)-1]
	}
	n, ok := new(big.Int).SetString(s, 10)
	if !ok {
		return nil, false
	}
	if neg {
		n.Neg(n)
	}
	return n, true
}

// truncDiv encodes Go's truncated division on mathematical integers.
func truncDiv(a, b Term, unsigned bool) Term {
	if unsigned {
		return App("div", SInt, a, b)
	}
	if n, ok := isLit(b); ok && n.Sign() > 0 {
		return Ite(Ge(a, IntLit(0)), App("div", SInt, a, b), App("-", SInt, App("div", SInt, App("-", SInt, a), b)))
	}
	absb := Ite(Ge(b, IntLit(0)), b, App("-", SInt, b))
	q := App("div", SInt, Ite(Ge(a, IntLit(0)), a, App("-", SInt, a)), absb)
	neg := App("xor", SBool, Lt(a, IntLit(0)), Lt(b, IntLit(0)))
	return Ite(neg, App("-", SInt, q), q)
}

func truncRem(a, b Term, unsigned bool) Term {
	if unsigned {
		return App("mod", SInt, a, b)
	}
	absb := Ite(Ge(b, IntLit(0)), b, App("-", SInt, b))
	if n, ok := isLit(b); ok && n.Sign() > 0 {
		absb = b
	}
	return Ite(Ge(a, IntLit(0)), App("mod", SInt, a, absb), App("-", SInt, App("mod", SInt, App("-", SInt, a), absb)))
}

func (r *FnRun) binop(fr *Frame, st *State, op token.Token, xv, yv Val, xt, yt, rt types.Type, where string) Val {
	// comparisons of non-scalar things first
	switch op {
	case token.EQL, token.NEQ:
		eq := r.valEq(xv, yv)
		if op == token.NEQ {
			return Not(eq)
		}
		return eq
	}
	x, xok := xv.(Term)
	y, yok := yv.(Term)
	if !xok || !yok {
		unsup("binary %s on %T, %T", op, xv, yv)
	}
	if x.Sort == SStr {
		switch op {
		case token.ADD:
			r.declareFun("scat", []Sort{SStr, SStr}, SStr)
			res := r.define("cat", App("scat", SStr, x, y))
			r.assume(Eq(r.strLen(res), Add(r.strLen(x), r.strLen(y))))
			return res
		case token.LSS, token.LEQ, token.GTR, token.GEQ:
			r.declareFun("slt", []Sort{SStr, SStr}, SBool)
			r.strOrderAxioms(x, y)
			switch op {
			case token.LSS:
				return App("slt", SBool, x, y)
			case token.GTR:
				return App("slt", SBool, y, x)
			case token.LEQ:
				return Not(App("slt", SBool, y, x))
			default:
				return Not(App("slt", SBool, x, y))
			}
		}
		unsup("string operator %s", op)
	}
	if x.Sort == SBool {
		switch op {
		case token.AND, token.LAND:
			return And(x, y)
		case token.OR, token.LOR:
			return Or(x, y)
		}
		unsup("bool operator %s", op)
	}
	if x.Sort == SReal {
		switch op {
		case token.ADD:
			return App("+", SReal, x, y)
		case token.SUB:
			return App("-", SReal, x, y)
		case token.MUL:
			return App("*", SReal, x, y)
		case token.QUO:
			return App("/", SReal, x, y)
		case token.LSS:
			return Lt(x, y)
		case token.LEQ:
			return Le(x, y)
		case token.GTR:
			return Gt(x, y)
		case token.GEQ:
			return Ge(x, y)
		}
		unsup("float operator %s", op)
	}
	if r.bv {
		return r.binopBV(st, op, x, y, xt, yt, rt, where)
	}
	unsigned := isUnsigned(xt)
	b, _ := isIntType(rt)
	ovf := func(raw Term) Term {
		if b == nil {
			return raw
		}
		lo, hi, _ := intRange(b)
		if r.wraps && unsigned {
			w, _ := intBits(b)
			return r.define("wrap", App("mod", SInt, raw, BigLit(pow2(w))))
		}
		raw = r.define("ar", raw)
		r.oblige("OVF", where, And(Le(BigLit(lo), raw), Le(raw, BigLit(hi))), st)
		return raw
	}
	switch op {
	case token.ADD:
		return ovf(App("+", SInt, x, y))
	case token.SUB:
		return ovf(App("-", SInt, x, y))
	case token.MUL:
		_, xl := isLit(x)
		_, yl := isLit(y)
		if !xl && !yl && !(r.wraps && unsigned) && b != nil {
			// a product of two unknowns: state the divisibility facts the
			// solvers' nonlinear engines find only sometimes (theorems of
			// integer arithmetic, not assumptions)
			p := r.define("ar", App("*", SInt, x, y))
			lo, hi, _ := intRange(b)
			r.oblige("OVF", where, And(Le(BigLit(lo), p), Le(p, BigLit(hi))), st)
			r.assume(Imp(Not(Eq(y, IntLit(0))), And(Eq(App("mod", SInt, p, y), IntLit(0)), Eq(App("div", SInt, p, y), x))))
			r.assume(Imp(Not(Eq(x, IntLit(0))), And(Eq(App("mod", SInt, p, x), IntLit(0)), Eq(App("div", SInt, p, x), y))))
			return p
		}
		return ovf(App("*", SInt, x, y))
	case token.QUO:
		r.oblige("DIV", where, Not(Eq(y, IntLit(0))), st)
		q := truncDiv(x, y, unsigned)
		if unsigned {
			return r.define("quo", q)
		}
		return ovf(q)
	case token.REM:
		r.oblige("DIV", where, Not(Eq(y, IntLit(0))), st)
		return r.define("rem", truncRem(x, y, unsigned))
	case token.LSS:
		return Lt(x, y)
	case token.LEQ:
		return Le(x, y)
	case token.GTR:
		return Gt(x, y)
	case token.GEQ:
		return Ge(x, y)
	case token.SHL:
		if !isUnsigned(yt) {
			r.oblige("SHIFT", where, Ge(y, IntLit(0)), st)
		}
		p := r.pow2Term(y)
		return ovf(App("*", SInt, x, p))
	case token.SHR:
		if !isUnsigned(yt) {
			r.oblige("SHIFT", where, Ge(y, IntLit(0)), st)
		}
		p := r.pow2Term(y)
		// floor division is the arithmetic shift for negative operands too
		return r.define("shr", App("div", SInt, x, p))
	case token.AND, token.OR, token.XOR, token.AND_NOT:
		return r.bitopInt(st, op, x, y, rt)
	}
	unsup("integer operator %s", op)
	return nil
}

func (r *FnRun) pow2Term(k Term) Term {
	if n, ok := isLit(k); ok && n.Sign() >= 0 && n.Cmp(big.NewInt(4096)) < 0 {
		return BigLit(pow2(int(n.Int64())))
	}
	r.declareFun("pow2", []Sort{SInt}, SInt)
	p := App("pow2", SInt, k)
	// instance axioms, enough for range reasoning
	r.assume(Imp(Ge(k, IntLit(0)), Ge(p, IntLit(1))))
	r.assume(Imp(And(Ge(k, IntLit(0)), Le(k, IntLit(62))), Le(p, BigLit(pow2(62)))))
	r.assume(Imp(And(Ge(k, IntLit(0)), Le(k, IntLit(31))), Le(p, BigLit(pow2(31)))))
	r.assume(Imp(Ge(k, IntLit(64)), Ge(p, BigLit(pow2(64)))))
	r.assume(Imp(Eq(k, IntLit(0)), Eq(p, IntLit(1))))
	return p
}

func (r *FnRun) bitopInt(st *State, op token.Token, x, y Term, rt types.Type) Val {
	// exact for masks of the form 2^k-1, otherwise a bounded unknown
	if op == token.AND {
		for _, pr := range [][2]Term{{x, y}, {y, x}} {
			if n, ok := isLit(pr[1]); ok && n.Sign() >= 0 {
				m := new(big.Int).Add(n, big.NewInt(1))
				if m.BitLen() > 0 && new(big.Int).And(m, n).Sign() == 0 && isUnsigned(rt) {
					return r.define("mask", App("mod", SInt, pr[0], BigLit(m)))
				}
			}
		}
	}
	// a deterministic but otherwise unknown function of the operands
	fname := "uf_b" + map[token.Token]string{token.AND: "and", token.OR: "or", token.XOR: "xor", token.AND_NOT: "andnot"}[op]
	r.declareFun(fname, []Sort{SInt, SInt}, SInt)
	res := r.define("bitop", App(fname, SInt, x, y))
	r.assumeRange(nil, res, rt)
	if isUnsigned(rt) {
		switch op {
		case token.AND:
			r.assume(And(Le(res, x), Le(res, y)))
		case token.OR:
			r.assume(And(Ge(res, x), Ge(res, y), Le(res, Add(x, y))))
		case token.XOR:
			r.assume(Le(res, Add(x, y)))
		case token.AND_NOT:
			r.assume(Le(res, x))
		}
	}
	r.note("bitwise %s in Int mode is over-approximated", op)
	return res
}

func (r *FnRun) binopBV(st *State, op token.Token, x, y Term, xt, yt, rt types.Type, where string) Val {
	unsigned := isUnsigned(xt)
	w := x.Sort.BVWidth()
	pick := func(u, s string) string {
		if unsigned {
			return u
		}
		return s
	}
	switch op {
	case token.ADD:
		return App("bvadd", x.Sort, x, y)
	case token.SUB:
		return App("bvsub", x.Sort, x, y)
	case token.MUL:
		return App("bvmul", x.Sort, x, y)
	case token.QUO:
		r.oblige("DIV", where, Not(Eq(y, BVLit(big.NewInt(0), w))), st)
		return App(pick("bvudiv", "bvsdiv"), x.Sort, x, y)
	case token.REM:
		r.oblige("DIV", where, Not(Eq(y, BVLit(big.NewInt(0), w))), st)
		return App(pick("bvurem", "bvsrem"), x.Sort, x, y)
	case token.AND:
		return App("bvand", x.Sort, x, y)
	case token.OR:
		return App("bvor", x.Sort, x, y)
	case token.XOR:
		return App("bvxor", x.Sort, x, y)
	case token.AND_NOT:
		return App("bvand", x.Sort, x, App("bvnot", x.Sort, y))
	case token.LSS:
		return App(pick("bvult", "bvslt"), SBool, x, y)
	case token.LEQ:
		return App(pick("bvule", "bvsle"), SBool, x, y)
	case token.GTR:
		return App(pick("bvugt", "bvsgt"), SBool, x, y)
	case token.GEQ:
		return App(pick("bvuge", "bvsge"), SBool, x, y)
	case token.SHL, token.SHR:
		yw := y.Sort.BVWidth()
		if !isUnsigned(yt) {
			r.oblige("SHIFT", where, App("bvsge", SBool, y, BVLit(big.NewInt(0), yw)), st)
		}
		// bring the count to the operand width, saturating
		var cnt Term
		switch {
		case yw == w:
			cnt = y
		case yw < w:
			cnt = App(fmt.Sprintf("(_ zero_extend %d)", w-yw), SBV(w), y)
		default:
			big1 := App("bvuge", SBool, y, BVLit(big.NewInt(int64(w)), yw))
			cnt = Ite(big1, BVLit(big.NewInt(int64(w)), w), App(fmt.Sprintf("(_ extract %d 0)", w-1), SBV(w), y))
		}
		if op == token.SHL {
			return App("bvshl", x.Sort, x, cnt)
		}
		return App(pick("bvlshr", "bvashr"), x.Sort, x, cnt)
	}
	unsup("bv operator %s", op)
	return nil
}

func (r *FnRun) strOrderAxioms(x, y Term) {
	// slt is a strict total order: irreflexive, asymmetric, total on the two terms
	r.assume(Not(App("slt", SBool, x, x)))
	r.assume(Not(And(App("slt", SBool, x, y), App("slt", SBool, y, x))))
	r.assume(Or(App("slt", SBool, x, y), App("slt", SBool, y, x), Eq(x, y)))
}

// valEq is structural equality of two values of the same type.
func (r *FnRun) valEq(a, b Val) Term {
	switch x := a.(type) {
	case Term:
		if y, ok := b.(Term); ok {
			return Eq(x, y)
		}
		if pb, ok := b.(PtrVal); ok && isInterior(pb) {
			return r.valEq(b, a)
		}
		return Eq(x, r.scalarOf(b))
	case *StructVal:
		y, ok := b.(*StructVal)
		if !ok {
			unsup("struct compared with %T", b)
		}
		var cs []Term
		for i := range x.F {
			cs = append(cs, r.valEq(x.F[i], y.F[i]))
		}
		return And(cs...)
	case SliceVal:
		// only comparison with nil is legal Go
		if y, ok := b.(SliceVal); ok {
			if y.Base.S == "0" {
				return Eq(x.Base, IntLit(0))
			}
			if x.Base.S == "0" {
				return Eq(y.Base, IntLit(0))
			}
		}
		unsup("slice comparison")
	case PtrVal, IfaceVal, ClosureVal:
		// an interface value compared with a pointer (specifications only):
		// equal iff the interface holds that pointer
		if iv, ok := a.(IfaceVal); ok {
			if pv, ok := b.(PtrVal); ok {
				if ip, ok := iv.Inner.(PtrVal); ok {
					return Eq(r.scalarOf(ip), r.scalarOf(pv))
				}
			}
		}
		if pv, ok := a.(PtrVal); ok {
			if iv, ok := b.(IfaceVal); ok {
				if ip, ok := iv.Inner.(PtrVal); ok {
					return Eq(r.scalarOf(ip), r.scalarOf(pv))
				}
			}
		}
		// a pointer into an object (&x.f with f a struct held by value) is
		// never nil and never equal to a separately allocated object
		if pa, ok := a.(PtrVal); ok && isInterior(pa) {
			switch y := b.(type) {
			case PtrVal:
				if isInterior(y) {
					if pa.Root == y.Root && pa.Path == y.Path {
						return Eq(pa.Ref, y.Ref)
					}
					return TFalse
				}
				if y.Kind == pkHeap {
					return TFalse
				}
			case Term:
				if y.S == "0" {
					return TFalse
				}
			}
		} else if pb, ok := b.(PtrVal); ok && isInterior(pb) {
			return r.valEq(b, a)
		}
		return Eq(r.scalarOf(a), r.scalarOf(b))
	}
	unsup("equality on %T", a)
	return Term{}
}
