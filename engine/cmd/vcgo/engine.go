package main

import (
	"fmt"
	"go/ast"
	"go/constant"
	"go/token"
	"go/types"
	"math/big"
	"os"
	"path/filepath"
	"sort"
	"strings"
	"sync"
	"time"

	"golang.org/x/tools/go/packages"
	"golang.org/x/tools/go/ssa"
	"golang.org/x/tools/go/ssa/ssautil"
)

const tokenADD = token.ADD

func bigInt(n int64) *big.Int { return big.NewInt(n) }

type Engine struct {
	prog       *ssa.Program
	pkgs       map[string]*ssa.Package
	lpkgs      map[string]*packages.Package
	cs         *ContractSet
	mu         sync.Mutex
	typeCodes  map[string]int
	gcells     map[string]*Cell
	errGlob    map[*FnRun][]string
	modCache   map[*ssa.Function]*modSet
	descCache  map[*ssa.Function]map[ssa.Instruction]string
	skipNil    bool
	covers     bool
	modTop     sync.Mutex // serialises frame inference traversals (see modInfer)
	embedOnce  sync.Once
	namedOnce  sync.Once
	named      map[string]types.Type
	embeds     map[string][]embedSite
	noContents bool
	repoDir    string
}

func loadEngine(repoDir string, patterns []string, contractDirs []string) (*Engine, error) {
	cfg := &packages.Config{
		Mode: packages.NeedName | packages.NeedFiles | packages.NeedCompiledGoFiles | packages.NeedImports |
			packages.NeedTypes | packages.NeedSyntax | packages.NeedTypesInfo | packages.NeedTypesSizes | packages.NeedDeps,
		Dir:        repoDir,
		BuildFlags: []string{"-tags=verif"},
	}
	// NeedDeps with syntax for everything is slow; restrict syntax loading to
	// the repository by loading dependencies from export data.
	cfg.Mode &^= packages.NeedDeps
	pkgs, err := packages.Load(cfg, patterns...)
	if err != nil {
		return nil, err
	}
	for _, p := range pkgs {
		for _, e := range p.Errors {
			return nil, fmt.Errorf("package %s: %v", p.PkgPath, e)
		}
	}
	prog, spkgs := ssautil.Packages(pkgs, ssa.NaiveForm|ssa.GlobalDebug|ssa.InstantiateGenerics)
	prog.Build()
	e := &Engine{
		prog: prog, pkgs: map[string]*ssa.Package{}, lpkgs: map[string]*packages.Package{}, cs: newContractSet(),
		typeCodes: map[string]int{}, gcells: map[string]*Cell{}, errGlob: map[*FnRun][]string{},
		modCache: map[*ssa.Function]*modSet{}, descCache: map[*ssa.Function]map[ssa.Instruction]string{}, repoDir: repoDir,
	}
	for i, p := range spkgs {
		if p != nil {
			e.pkgs[p.Pkg.Path()] = p
			e.lpkgs[p.Pkg.Path()] = pkgs[i]
		}
	}
	// contract files: verif_contracts.go in every loaded package, plus
	// directories of assumed contracts for external code
	for _, p := range pkgs {
		for _, f := range p.CompiledGoFiles {
			if strings.HasPrefix(filepath.Base(f), "verif_contracts") {
				if err := e.cs.loadContractFile(f, p.PkgPath); err != nil {
					return nil, err
				}
			}
		}
	}
	for _, d := range contractDirs {
		files, _ := filepath.Glob(filepath.Join(d, "*.spec"))
		sort.Strings(files)
		for _, f := range files {
			pkg := ""
			// the first line may name the package the file speaks about: "package <path>"
			if b, err := os.ReadFile(f); err == nil {
				for _, l := range strings.Split(string(b), "\n") {
					l = strings.TrimSpace(l)
					if strings.HasPrefix(l, "package ") {
						pkg = strings.TrimSpace(strings.TrimPrefix(l, "package "))
						break
					}
				}
			}
			if err := e.cs.loadContractFile(f, pkg); err != nil {
				return nil, err
			}
		}
	}
	return e, nil
}

func (e *Engine) typeCode(t types.Type) int {
	e.mu.Lock()
	defer e.mu.Unlock()
	k := types.TypeString(types.Unalias(t), nil)
	if c, ok := e.typeCodes[k]; ok {
		return c
	}
	c := len(e.typeCodes) + 1
	e.typeCodes[k] = c
	return c
}

func (e *Engine) typeCodeByName(name, pkg string) int {
	ptr := strings.HasPrefix(name, "*")
	n := strings.TrimPrefix(name, "*")
	t := e.lookupType(pkg, n)
	if t == nil {
		// a type of a package that is not loaded (e.g. "*bytes.Buffer"): the
		// code of its full type string, which is what typeCode uses
		e.mu.Lock()
		defer e.mu.Unlock()
		if c, ok := e.typeCodes[name]; ok {
			return c
		}
		c := len(e.typeCodes) + 1
		e.typeCodes[name] = c
		return c
	}
	if ptr {
		return e.typeCode(types.NewPointer(t))
	}
	return e.typeCode(t)
}

func (e *Engine) lookupType(pkg, name string) types.Type {
	if i := strings.LastIndex(name, "."); i >= 0 {
		pkg, name = name[:i], name[i+1:]
		for p := range e.pkgs {
			if strings.HasSuffix(p, "/"+pkg) || p == pkg {
				pkg = p
			}
		}
	}
	p := e.pkgs[pkg]
	if p == nil {
		return nil
	}
	if o := p.Pkg.Scope().Lookup(name); o != nil {
		if tn, ok := o.(*types.TypeName); ok {
			return tn.Type()
		}
	}
	return nil
}

func (e *Engine) globalCell(key string, g *ssa.Global) *Cell {
	e.mu.Lock()
	defer e.mu.Unlock()
	if c, ok := e.gcells[key]; ok {
		return c
	}
	c := &Cell{id: -len(e.gcells) - 1, name: g.Name(), typ: g.Type().(*types.Pointer).Elem()}
	e.gcells[key] = c
	return c
}

func (e *Engine) errGlobals(r *FnRun) []string { return e.errGlob[r] }
func (e *Engine) addErrGlobal(r *FnRun, n string) {
	e.mu.Lock()
	e.errGlob[r] = append(e.errGlob[r], n)
	e.mu.Unlock()
}

// constArrayInit extracts the constant initialiser of a package-level array.
func (e *Engine) constArrayInit(g *ssa.Global) []*big.Int {
	lp := e.lpkgs[g.Pkg.Pkg.Path()]
	if lp == nil {
		return nil
	}
	for _, f := range lp.Syntax {
		for _, d := range f.Decls {
			gd, ok := d.(*ast.GenDecl)
			if !ok || gd.Tok != token.VAR {
				continue
			}
			for _, s := range gd.Specs {
				vs := s.(*ast.ValueSpec)
				for i, n := range vs.Names {
					if n.Name != g.Name() || i >= len(vs.Values) {
						continue
					}
					cl, ok := vs.Values[i].(*ast.CompositeLit)
					if !ok {
						return nil
					}
					var out []*big.Int
					for _, el := range cl.Elts {
						tv, ok := lp.TypesInfo.Types[el]
						if !ok || tv.Value == nil || tv.Value.Kind() != constant.Int {
							return nil
						}
						v, _ := new(big.Int).SetString(tv.Value.ExactString(), 10)
						out = append(out, v)
					}
					return out
				}
			}
		}
	}
	return nil
}

func (e *Engine) autoInline(fn *ssa.Function) bool { return false }

// describe gives an instruction a name that does not depend on line numbers:
// the source text of the smallest enclosing expression plus an occurrence index.
func (e *Engine) describe(fn *ssa.Function, in ssa.Instruction) string {
	e.mu.Lock()
	defer e.mu.Unlock()
	m := e.descCache[fn]
	if m == nil {
		m = e.buildDescriptions(fn)
		e.descCache[fn] = m
	}
	if d, ok := m[in]; ok {
		return d
	}
	return "?"
}

func (e *Engine) buildDescriptions(fn *ssa.Function) map[ssa.Instruction]string {
	m := map[ssa.Instruction]string{}
	var file *ast.File
	var lp *packages.Package
	if p := fnPkgPath(fn); p != "" {
		lp = e.lpkgs[p]
	}
	if lp != nil && fn.Pos().IsValid() {
		for _, f := range lp.Syntax {
			if f.FileStart <= fn.Pos() && fn.Pos() <= f.FileEnd {
				file = f
			}
		}
	}
	count := map[string]int{}
	for _, b := range fn.Blocks {
		for _, in := range b.Instrs {
			pos := in.Pos()
			if v, ok := in.(ssa.Value); ok && !pos.IsValid() {
				pos = v.Pos()
			}
			txt := ""
			if file != nil && pos.IsValid() {
				_, isBin := in.(*ssa.BinOp)
				txt = exprTextAt(e.prog.Fset, file, pos, isBin)
			}
			if txt == "" {
				txt = fmt.Sprintf("%T", in)
				txt = strings.TrimPrefix(txt, "*ssa.")
			}
			if len(txt) > 60 {
				txt = txt[:60]
			}
			txt = strings.Join(strings.Fields(txt), "")
			count[txt]++
			m[in] = fmt.Sprintf("%s#%d", txt, count[txt])
		}
	}
	return m
}

func exprTextAt(fset *token.FileSet, file *ast.File, pos token.Pos, isBin bool) string {
	var best, exact ast.Node
	ast.Inspect(file, func(n ast.Node) bool {
		if n == nil {
			return false
		}
		if n.Pos() <= pos && pos < n.End() {
			if isBin && n.Pos() == pos && exact == nil {
				// x++ and x op= y carry the position of the statement
				switch x := n.(type) {
				case *ast.IncDecStmt:
					exact = n
				case *ast.AssignStmt:
					if x.Tok != token.ASSIGN && x.Tok != token.DEFINE {
						exact = n
					}
				}
			}
			// SSA instructions carry the position of the operator token
			switch x := n.(type) {
			case *ast.BinaryExpr:
				if x.OpPos == pos {
					exact = n
				}
			case *ast.IncDecStmt:
				if x.TokPos == pos {
					exact = n
				}
			case *ast.AssignStmt:
				if x.TokPos == pos {
					exact = n
				}
			case *ast.IndexExpr:
				if x.Lbrack == pos {
					exact = n
				}
			case *ast.SliceExpr:
				if x.Lbrack == pos {
					exact = n
				}
			case *ast.CallExpr:
				if x.Lparen == pos {
					exact = n
				}
			case *ast.UnaryExpr:
				if x.OpPos == pos {
					exact = n
				}
			case *ast.StarExpr:
				if x.Star == pos {
					exact = n
				}
			case *ast.SelectorExpr:
				if x.Sel.Pos() == pos {
					exact = n
				}
			case *ast.TypeAssertExpr:
				if x.Lparen == pos {
					exact = n
				}
			}
			switch n.(type) {
			case ast.Expr, *ast.AssignStmt, *ast.IncDecStmt, *ast.ReturnStmt, *ast.RangeStmt, *ast.DeferStmt, *ast.GoStmt, *ast.ExprStmt:
				if _, isFn := n.(*ast.FuncLit); !isFn {
					best = n
				}
			}
			return true
		}
		return false
	})
	if exact != nil {
		best = exact
	}
	if best == nil {
		return ""
	}
	start := fset.Position(best.Pos())
	end := fset.Position(best.End())
	b, err := os.ReadFile(start.Filename)
	if err != nil || end.Offset > len(b) || start.Offset > end.Offset {
		return ""
	}
	s := string(b[start.Offset:end.Offset])
	if i := strings.IndexByte(s, '\n'); i >= 0 {
		s = s[:i]
	}
	return s
}

// findFunction resolves a contract's relative name to an SSA function.
func (e *Engine) findFunction(pkg, rel string) *ssa.Function {
	p := e.pkgs[pkg]
	if p == nil {
		return nil
	}
	var found *ssa.Function
	var visit func(fn *ssa.Function)
	visit = func(fn *ssa.Function) {
		if fn == nil || found != nil {
			return
		}
		if relName(fn) == rel {
			found = fn
			return
		}
		for _, a := range fn.AnonFuncs {
			visit(a)
		}
	}
	for _, m := range p.Members {
		switch x := m.(type) {
		case *ssa.Function:
			visit(x)
		case *ssa.Type:
			for _, t := range []types.Type{x.Type(), types.NewPointer(x.Type())} {
				ms := e.prog.MethodSets.MethodSet(t)
				for i := 0; i < ms.Len(); i++ {
					visit(e.prog.MethodValue(ms.At(i)))
				}
			}
		}
	}
	return found
}

// namedType finds the named type with the given key in the loaded program.
func (e *Engine) namedType(key string) types.Type {
	e.namedOnce.Do(func() {
		e.named = map[string]types.Type{}
		for _, p := range e.prog.AllPackages() {
			for _, m := range p.Members {
				if tp, ok := m.(*ssa.Type); ok {
					e.named[typeKey(tp.Type())] = tp.Type()
				}
			}
		}
	})
	return e.named[key]
}

// embedSite: struct type root has, at field path path, a value of some other
// named struct type.
type embedSite struct{ root, path string }

// embedSites lists where the named struct type with key t is embedded by value
// in struct types of the loaded program.
func (e *Engine) embedSites(t string) []embedSite {
	e.embedOnce.Do(func() {
		e.embeds = map[string][]embedSite{}
		for _, p := range e.prog.AllPackages() {
			for _, m := range p.Members {
				tp, ok := m.(*ssa.Type)
				if !ok {
					continue
				}
				st, ok := under(tp.Type()).(*types.Struct)
				if !ok {
					continue
				}
				root := typeKey(tp.Type())
				var walk func(s *types.Struct, path string, depth int)
				walk = func(s *types.Struct, path string, depth int) {
					if depth > 6 {
						return
					}
					for i := 0; i < s.NumFields(); i++ {
						ft := s.Field(i).Type()
						fp := joinPath(path, s.Field(i).Name())
						if arr, ok := under(ft).(*types.Array); ok {
							ft = arr.Elem()
						}
						if fs, ok := under(ft).(*types.Struct); ok {
							if _, named := types.Unalias(ft).(*types.Named); named {
								k := typeKey(ft)
								e.embeds[k] = append(e.embeds[k], embedSite{root, fp})
							}
							walk(fs, fp, depth+1)
						}
					}
				}
				walk(st, "", 0)
			}
		}
	})
	return e.embeds[t]
}

func (r *FnRun) isHavocked(st *State, key string) bool {
	if st.hv[key] {
		return true
	}
	for k := range st.hv {
		if strings.HasPrefix(k, "prefix:") {
			p := strings.TrimPrefix(k, "prefix:")
			if key == p || strings.HasPrefix(key, p+".") || (strings.HasSuffix(p, "|") && strings.HasPrefix(key, p)) {
				return true
			}
		}
	}
	return false
}

// ----------------------------------------------------- frame inference ----

type modSet struct {
	all    bool
	keys   map[string]bool // heap key prefixes "Root|path"
	ghosts map[string]bool
	allocs map[*ssa.Alloc]bool
	calls  bool
}

func newModSet() *modSet {
	return &modSet{keys: map[string]bool{}, ghosts: map[string]bool{}, allocs: map[*ssa.Alloc]bool{}}
}

func (m *modSet) sortedKeys() []string {
	var ks []string
	for k := range m.keys {
		ks = append(ks, k)
	}
	sort.Strings(ks)
	return ks
}

func (m *modSet) union(o *modSet) {
	if o.all {
		m.all = true
	}
	for k := range o.keys {
		m.keys[k] = true
	}
	for k := range o.ghosts {
		m.ghosts[k] = true
	}
}

func rootKeyOf(t types.Type) string {
	if _, ok := under(t).(*types.Struct); ok {
		return typeKey(t)
	}
	return "*" + typeKey(t)
}

// storeTarget classifies the destination of a store.
func storeTarget(addr ssa.Value, ms *modSet) {
	path := ""
	v := addr
	for {
		switch x := v.(type) {
		case *ssa.FieldAddr:
			stt := under(x.X.Type().(*types.Pointer).Elem()).(*types.Struct)
			path = joinPath(stt.Field(x.Field).Name(), path)
			v = x.X
			continue
		case *ssa.IndexAddr:
			switch xt := under(x.X.Type()).(type) {
			case *types.Slice:
				ms.keys["[]"+typeKey(xt.Elem())+"|"+path] = true
				return
			case *types.Pointer:
				v = x.X
				continue
			}
			ms.all = true
			return
		case *ssa.Alloc:
			ms.allocs[x] = true
			if x.Heap {
				// a fresh object: writing its fields cannot disturb older ones
			}
			return
		case *ssa.Global:
			return
		default:
			pt, ok := under(v.Type()).(*types.Pointer)
			if !ok {
				ms.all = true
				return
			}
			ms.keys[rootKeyOf(pt.Elem())+"|"+path] = true
			return
		}
	}
}

func (e *Engine) contractMods(ct *Contract, ms *modSet) {
	if ct.ModAll {
		ms.all = true
		return
	}
	for _, m := range ct.Modifies {
		switch x := m.E.(type) {
		case SIdent:
			if _, ok := e.cs.Ghosts[x.Name]; ok {
				ms.ghosts[x.Name] = true
				continue
			}
			ms.all = true
		case SCall:
			if _, ok := e.cs.Ghosts[x.Fun]; ok {
				ms.ghosts[x.Fun] = true
				continue
			}
			ms.all = true
		case SSel:
			if id, ok := x.X.(SIdent); ok {
				if t := e.lookupType(ct.Pkg, id.Name); t != nil {
					ms.keys[rootKeyOf(t)+"|"+x.Name] = true
					continue
				}
			}
			// x.f with x a parameter: resolve the static type of x later; be coarse
			ms.keys["?"+x.Name] = true
		default:
			ms.all = true
		}
	}
}

func (e *Engine) instrMods(fn *ssa.Function, in ssa.Instruction, ms *modSet, r *FnRun, depth int) {
	switch x := in.(type) {
	case *ssa.Store:
		storeTarget(x.Addr, ms)
	case *ssa.MapUpdate:
		ms.keys["map:"+typeKey(x.Map.Type())+"|"] = true
	case *ssa.Send:
		ms.ghosts["sends"] = true
	case *ssa.Select:
		ms.ghosts["sends"] = true
		ms.ghosts["recvs"] = true
	case *ssa.UnOp:
		if x.Op == token.ARROW {
			ms.ghosts["recvs"] = true
			// fields forgotten at the receive ("recvhavoc")
			if u, ok := x.X.(*ssa.UnOp); ok && u.Op == token.MUL && e.cs.RecvHavoc != nil {
				if fa, ok := u.X.(*ssa.FieldAddr); ok {
					if pt, ok := fa.X.Type().Underlying().(*types.Pointer); ok {
						if stt, ok := under(pt.Elem()).(*types.Struct); ok {
							if n, ok := types.Unalias(pt.Elem()).(*types.Named); ok && n.Obj().Pkg() != nil {
								key := n.Obj().Pkg().Path() + "::" + n.Obj().Name() + "." + stt.Field(fa.Field).Name()
								for _, f := range e.cs.RecvHavoc[key] {
									ms.keys[rootKeyOf(pt.Elem())+"|"+f] = true
								}
							}
						}
					}
				}
			}
		}
	case *ssa.Call, *ssa.Defer, *ssa.Go:
		var c *ssa.CallCommon
		switch y := x.(type) {
		case *ssa.Call:
			c = &y.Call
		case *ssa.Defer:
			c = &y.Call
		case *ssa.Go:
			return
		}
		ms.calls = true
		if b, ok := c.Value.(*ssa.Builtin); ok {
			switch b.Name() {
			case "append", "copy":
				if sl, ok := under(c.Args[0].Type()).(*types.Slice); ok {
					ms.keys["[]"+typeKey(sl.Elem())+"|"] = true
				}
			case "delete", "clear":
				ms.keys["map:"+typeKey(c.Args[0].Type())+"|"] = true
			case "close":
				ms.ghosts["closed"] = true
			}
			return
		}
		if c.IsInvoke() {
			if ct := e.ifaceContract(c.Value.Type(), c.Method); ct != nil {
				e.contractMods(ct, ms)
				return
			}
			if methodInRepo(c) {
				ms.all = true
			}
			return
		}
		callee := c.StaticCallee()
		if callee == nil {
			if n, ok := types.Unalias(c.Value.Type()).(*types.Named); ok && n.Obj().Pkg() != nil {
				if ct, ok := e.cs.ByKey[n.Obj().Pkg().Path()+"::"+n.Obj().Name()+".call"]; ok {
					e.contractMods(ct, ms)
					return
				}
			}
			// a function-typed parameter with a contract ("opt funcparam")
			if fct := e.contractFor(fn); fct != nil {
				vname := c.Value.Name()
				if u, ok := c.Value.(*ssa.UnOp); ok && u.Op == token.MUL {
					if a, ok := u.X.(*ssa.Alloc); ok {
						vname = a.Comment
					}
				}
				for _, pr := range strings.Fields(fct.Opts["funcparam"]) {
					kv := strings.SplitN(pr, "=", 2)
					if len(kv) == 2 && kv[0] == vname {
						if ct, ok := e.cs.ByKey[fnPkgPath(fn)+"::"+kv[1]+".call"]; ok {
							e.contractMods(ct, ms)
							return
						}
					}
				}
			}
			ms.all = true
			return
		}
		name := callee.String()
		switch {
		case strings.HasSuffix(name, "Mutex).Lock"), strings.HasSuffix(name, "Mutex).Unlock"),
			strings.HasSuffix(name, "Mutex).RLock"), strings.HasSuffix(name, "Mutex).RUnlock"):
			ms.ghosts["held"] = true
			if r != nil {
				// lock invariants havoc guarded fields at acquisition
				for _, li := range e.lockInvs() {
					for _, g := range li.guards {
						ms.keys[g] = true
					}
				}
			}
			return
		case strings.HasPrefix(name, "(*sync/atomic."):
			if len(c.Args) > 0 {
				storeTarget(c.Args[0], ms)
			}
			return
		}
		if ct := e.contractFor(callee); ct != nil && !ct.Inline {
			if ct.HasMod {
				e.contractMods(ct, ms)
				// "?field" entries: resolve against parameter types
				for k := range ms.keys {
					if strings.HasPrefix(k, "?") {
						delete(ms.keys, k)
						f := strings.TrimPrefix(k, "?")
						resolved := false
						for _, p := range callee.Params {
							if pt, ok := under(p.Type()).(*types.Pointer); ok {
								if i, _ := fieldIndex(pt.Elem(), f); i >= 0 {
									ms.keys[rootKeyOf(pt.Elem())+"|"+f] = true
									resolved = true
								}
							}
						}
						if !resolved {
							ms.all = true
						}
					}
				}
				return
			}
			if len(callee.Blocks) > 0 && depth < 8 {
				ms.union(e.modInferDepth(callee, depth+1))
			}
			return
		}
		if !inRepo(fnPkgPath(callee)) {
			return
		}
		if len(callee.Blocks) == 0 || depth >= 8 {
			ms.all = true
			return
		}
		ms.union(e.modInferDepth(callee, depth+1))
	}
}

// modInfer is entered by one goroutine at a time: the "in progress" marker in
// modCache means recursion only if it was set by the same traversal (functions
// are verified in parallel; a second traversal seeing the marker would wrongly
// conclude that the callee is recursive and give it an unbounded frame).
func (e *Engine) modInfer(fn *ssa.Function) *modSet {
	e.modTop.Lock()
	defer e.modTop.Unlock()
	return e.modInferDepth(fn, 0)
}

func (e *Engine) modInferDepth(fn *ssa.Function, depth int) *modSet {
	e.mu.Lock()
	if m, ok := e.modCache[fn]; ok {
		e.mu.Unlock()
		if m == nil { // recursion
			a := newModSet()
			a.all = true
			return a
		}
		return m
	}
	e.modCache[fn] = nil
	e.mu.Unlock()
	ms := newModSet()
	for _, b := range fn.Blocks {
		for _, in := range b.Instrs {
			e.instrMods(fn, in, ms, nil, depth)
		}
	}
	for _, a := range fn.AnonFuncs {
		_ = a
	}
	e.mu.Lock()
	e.modCache[fn] = ms
	e.mu.Unlock()
	return ms
}

func (e *Engine) loopMods(fn *ssa.Function, l *loopT, r *FnRun) *modSet {
	e.modTop.Lock()
	defer e.modTop.Unlock()
	ms := newModSet()
	for b := range l.body {
		for _, in := range b.Instrs {
			e.instrMods(fn, in, ms, r, 0)
			if mc, ok := in.(*ssa.MakeClosure); ok {
				_ = mc
			}
		}
	}
	return ms
}

type lockInv struct {
	guards []string
}

func (e *Engine) lockInvs() []lockInv { return nil }

var _ = time.Now

// purityScan decides syntactically whether a function's result depends only on
// its (scalar) arguments: no heap reads through parameters, no stores except to
// its own locals, no calls except to functions that are themselves declared
// deterministic (and pass the same scan) or to known pure library functions,
// globals only read. Returns "" when pure, else the first offending construct.
func (e *Engine) purityScan(fn *ssa.Function) string {
	for _, p := range fn.Params {
		if stt, ok := under(p.Type()).(*types.Struct); ok && stt.NumFields() == 1 && isScalarType(stt.Field(0).Type()) {
			continue // a single-field value struct is as good as its field
		}
		if !isScalarType(p.Type()) {
			return "parameter " + p.Name() + " is not a scalar"
		}
		switch under(p.Type()).(type) {
		case *types.Pointer, *types.Interface, *types.Map, *types.Chan, *types.Signature:
			return "parameter " + p.Name() + " is a reference"
		}
	}
	if len(fn.FreeVars) > 0 {
		return "closure with free variables"
	}
	rootOf := func(v ssa.Value) ssa.Value {
		for {
			switch x := v.(type) {
			case *ssa.FieldAddr:
				v = x.X
			case *ssa.IndexAddr:
				v = x.X
			default:
				return v
			}
		}
	}
	for _, b := range fn.Blocks {
		for _, in := range b.Instrs {
			switch x := in.(type) {
			case *ssa.Store:
				if _, ok := rootOf(x.Addr).(*ssa.Alloc); !ok {
					return "store outside local variables"
				}
			case *ssa.UnOp:
				if x.Op == token.MUL {
					switch rootOf(x.X).(type) {
					case *ssa.Alloc, *ssa.Global:
					default:
						return "load through a non-local pointer"
					}
				}
				if x.Op == token.ARROW {
					return "channel receive"
				}
			case *ssa.Call:
				if b, ok := x.Call.Value.(*ssa.Builtin); ok {
					switch b.Name() {
					case "len", "cap", "min", "max", "ssa:deferstack":
						continue
					}
					return "builtin " + b.Name()
				}
				callee := x.Call.StaticCallee()
				if callee == nil {
					return "dynamic call"
				}
				switch callee.String() {
				case "math/bits.Len64", "math/bits.Len", "math/bits.LeadingZeros64", "math/bits.TrailingZeros64",
					"crypto/sha256.Sum256", "strconv.Itoa", "strconv.FormatInt", "strconv.AppendInt", "strconv.ParseInt",
					"strings.IndexByte", "strings.HasPrefix", "strings.LastIndexByte":
					continue
				}
				ct := e.contractFor(callee)
				if ct == nil || ct.Opts["deterministic"] == "" {
					if ct != nil && ct.Inline || ct == nil && inRepo(fnPkgPath(callee)) && len(callee.Blocks) > 0 {
						if why := e.purityScan(callee); why != "" {
							return "callee " + relName(callee) + ": " + why
						}
						continue
					}
					return "call to " + callee.String() + " which is not declared deterministic"
				}
			case *ssa.Go, *ssa.Defer, *ssa.Send, *ssa.MapUpdate, *ssa.Select, *ssa.MakeChan:
				return fmt.Sprintf("%T", in)
			}
		}
	}
	return ""
}
