package main

import (
	"sort"

	"golang.org/x/tools/go/ssa"
)

type loopT struct {
	head    *ssa.BasicBlock
	body    map[*ssa.BasicBlock]bool
	ordinal int
}

type loopInfo struct {
	byHead map[*ssa.BasicBlock]*loopT
	list   []*loopT
}

func analyzeLoops(fn *ssa.Function) *loopInfo {
	li := &loopInfo{byHead: map[*ssa.BasicBlock]*loopT{}}
	for _, b := range fn.Blocks {
		for _, s := range b.Succs {
			if s.Dominates(b) {
				l := li.byHead[s]
				if l == nil {
					l = &loopT{head: s, body: map[*ssa.BasicBlock]bool{s: true}}
					li.byHead[s] = l
				}
				// reverse DFS from b up to head
				stack := []*ssa.BasicBlock{b}
				for len(stack) > 0 {
					n := stack[len(stack)-1]
					stack = stack[:len(stack)-1]
					if l.body[n] {
						continue
					}
					l.body[n] = true
					stack = append(stack, n.Preds...)
				}
			}
		}
	}
	for _, l := range li.byHead {
		li.list = append(li.list, l)
	}
	sort.Slice(li.list, func(i, j int) bool { return li.list[i].head.Index < li.list[j].head.Index })
	for i, l := range li.list {
		l.ordinal = i
	}
	return li
}
