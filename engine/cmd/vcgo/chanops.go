package main

// countChanOp adds one to the per-channel counter ghost (recvs or sends) of
// channel ch when cond holds. The counters exist only if the contract files
// declare them ("ghost recvs(ref) int", "ghost sends(ref) int").
func (r *FnRun) countChanOp(st *State, ghost string, ch Val, cond Term) {
	g := r.e.cs.Ghosts[ghost]
	if g == nil || g.Arity != 1 {
		return
	}
	c := termOf(ch)
	arr := r.ghostTerm(st, g)
	na := r.fresh("G_"+ghost, arr.Sort)
	r.assume(Eq(na, Store(arr, c, Add(Select(arr, c), Ite(cond, IntLit(1), IntLit(0))))))
	st.ghost[ghost] = na
}
