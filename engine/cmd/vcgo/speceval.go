package main

import (
	"fmt"
	"go/ast"
	"go/types"
	"math/big"
	"strconv"
	"strings"

	"golang.org/x/tools/go/ssa"
)

type specEnv struct {
	st       *State
	old      *State
	vars     map[string]Val
	bound    map[string]Term
	fr       *Frame
	useCells bool
	pkg      string
	oldTop   Term
	what     string
	ptypes   map[string]types.Type // static types of the callee's parameters (call sites only)
}

func (env *specEnv) with(vars map[string]Val) *specEnv {
	n := *env
	n.vars = map[string]Val{}
	for k, v := range env.vars {
		n.vars[k] = v
	}
	for k, v := range vars {
		n.vars[k] = v
	}
	return &n
}

type specFail struct{ msg string }

func sfail(f string, a ...interface{}) { panic(specFail{fmt.Sprintf(f, a...)}) }

var grpcCodes = map[string]int64{
	"OK": 0, "Canceled": 1, "Unknown": 2, "InvalidArgument": 3, "DeadlineExceeded": 4, "NotFound": 5,
	"AlreadyExists": 6, "PermissionDenied": 7, "ResourceExhausted": 8, "FailedPrecondition": 9, "Aborted": 10,
	"OutOfRange": 11, "Unimplemented": 12, "Internal": 13, "Unavailable": 14, "DataLoss": 15, "Unauthenticated": 16,
}

func (r *FnRun) evalBool(e SExpr, env *specEnv) Term {
	v := r.evalSpec(e, env)
	t, ok := v.(Term)
	if !ok || t.Sort != SBool {
		sfail("%s: expression is not boolean (%T)", env.what, v)
	}
	return t
}

func (r *FnRun) specLit(s string, like Term) Term {
	n, ok := new(big.Int).SetString(s, 0)
	if !ok {
		sfail("bad number %q", s)
	}
	if like.Sort.IsBV() {
		return BVLit(n, like.Sort.BVWidth())
	}
	return BigLit(n)
}

func (r *FnRun) coerce(a, b Term) (Term, Term) {
	if a.Sort == b.Sort {
		return a, b
	}
	if a.Sort.IsBV() && b.Sort == SInt {
		if n, ok := isLit(b); ok {
			return a, BVLit(n, a.Sort.BVWidth())
		}
	}
	if b.Sort.IsBV() && a.Sort == SInt {
		if n, ok := isLit(a); ok {
			return BVLit(n, b.Sort.BVWidth()), b
		}
	}
	if a.Sort == SReal && b.Sort == SInt {
		return a, App("to_real", SReal, b)
	}
	if b.Sort == SReal && a.Sort == SInt {
		return App("to_real", SReal, a), b
	}
	sfail("sort mismatch: %s : %s vs %s : %s", a.S, a.Sort, b.S, b.Sort)
	return a, b
}

func (r *FnRun) lookupLocal(env *specEnv, name string) (Val, bool) {
	if env.fr == nil {
		return nil, false
	}
	// a variable captured by reference: its current value is behind the
	// free variable's pointer
	for _, fv := range env.fr.fn.FreeVars {
		if fv.Name() != name {
			continue
		}
		if pv, ok := env.fr.vals[fv].(PtrVal); ok {
			if _, isPtr := fv.Type().(*types.Pointer); isPtr && (pv.Kind == pkHeap || pv.Kind == pkCell) {
				if pv.Kind == pkCell {
					if v, ok := env.st.cells[pv.Cell]; ok {
						return v, true
					}
					continue
				}
				return r.specLoad(env.st, pv), true
			}
		}
	}
	// rangeindexK: the hidden index of the K-th range loop of the function (in
	// source order); plain "rangeindex" is ambiguous in nested range loops
	if strings.HasPrefix(name, "rangeindex") && len(name) > len("rangeindex") {
		if k, err := strconv.Atoi(name[len("rangeindex"):]); err == nil {
			n := 0
			for _, b := range env.fr.fn.Blocks {
				for _, in := range b.Instrs {
					a, ok := in.(*ssa.Alloc)
					if !ok || a.Comment != "rangeindex" {
						continue
					}
					if n == k {
						if p, ok := env.fr.vals[a].(PtrVal); ok && p.Kind == pkCell {
							if v, ok := env.st.cells[p.Cell]; ok {
								return v, true
							}
						}
						return r.freshVal(r.cur, a.Type().(*types.Pointer).Elem(), "unborn_"+name), true
					}
					n++
				}
			}
		}
	}
	var best *Cell
	var bestPtr PtrVal
	for v, val := range env.fr.vals {
		a, ok := v.(*ssa.Alloc)
		if !ok || a.Comment != name {
			continue
		}
		p, ok := val.(PtrVal)
		if !ok {
			continue
		}
		if p.Kind == pkCell {
			if best == nil || p.Cell.id > best.id {
				best = p.Cell
				bestPtr = p
			}
		} else if p.Kind == pkHeap && best == nil {
			return p, true
		} else if p.Kind == pkArr && best == nil {
			if at, ok := under(p.Elem).(*types.Array); ok && isScalarType(at.Elem()) {
				return Select(r.elemArr(env.st, "[]"+typeKey(at.Elem())+"|", r.sortOf(at.Elem())), p.Base), true
			}
		}
	}
	if best != nil {
		if v, ok := env.st.cells[best]; ok {
			_ = bestPtr
			return v, true
		}
	}
	// a local that is never reassigned has no cell of its own; the debug
	// references of the SSA form say which value the identifier denotes
	for _, b := range env.fr.fn.Blocks {
		for _, in := range b.Instrs {
			if dr, ok := in.(*ssa.DebugRef); ok && !dr.IsAddr {
				if id, ok := dr.Expr.(*ast.Ident); ok && id.Name == name {
					if v, ok := env.fr.vals[dr.X]; ok {
						return v, true
					}
				}
			}
		}
	}
	// a local variable of the function that has not come into existence on
	// this path (e.g. an early return): an arbitrary value. A clause that
	// constrains it can then only hold if it holds for every value.
	for _, b := range env.fr.fn.Blocks {
		for _, in := range b.Instrs {
			if a, ok := in.(*ssa.Alloc); ok && a.Comment == name {
				if _, live := env.fr.vals[a]; !live && r.cur != nil {
					return r.freshVal(r.cur, a.Type().(*types.Pointer).Elem(), "unborn_"+name), true
				}
			}
		}
	}
	return nil, false
}

func (r *FnRun) evalSpec(e SExpr, env *specEnv) Val {
	switch x := e.(type) {
	case SNum:
		n, ok := new(big.Int).SetString(x.Val, 0)
		if !ok {
			sfail("bad number %q", x.Val)
		}
		return BigLit(n)
	case SStrL:
		return r.strLit(x.Val)
	case SIdent:
		return r.evalIdent(x.Name, env)
	case SUn:
		v := r.evalSpec(x.X, env)
		t, ok := v.(Term)
		if !ok {
			sfail("unary %s on %T", x.Op, v)
		}
		switch x.Op {
		case "!":
			return Not(t)
		case "-":
			if t.Sort.IsBV() {
				return App("bvneg", t.Sort, t)
			}
			if n, ok := isLit(t); ok {
				return BigLit(new(big.Int).Neg(n))
			}
			return App("-", t.Sort, t)
		}
	case SBin:
		return r.evalBin(x, env)
	case SSel:
		return r.evalSel(x, env)
	case SIdx:
		return r.evalIdx(x, env)
	case SCall:
		return r.evalCall(x, env)
	case SQuant:
		return r.evalQuant(x, env)
	case SSlice:
		sfail("slice expressions are not supported in specifications")
	}
	sfail("cannot evaluate %T", e)
	return nil
}

func (r *FnRun) evalIdent(name string, env *specEnv) Val {
	if t, ok := env.bound[name]; ok {
		return t
	}
	if env.useCells {
		if v, ok := r.lookupLocal(env, name); ok {
			return v
		}
	}
	// a variable the closure captured by reference is shared state: its name
	// means its value in the state being looked at (old(x) for the entry value)
	if env.fr != nil && env.fr.fn != nil {
		for _, fv := range env.fr.fn.FreeVars {
			if fv.Name() == name {
				if pv, ok := env.fr.vals[fv].(PtrVal); ok && pv.Kind == pkCell {
					if v, ok := env.st.cells[pv.Cell]; ok {
						return v
					}
				}
			}
		}
	}
	if v, ok := env.vars[name]; ok {
		return v
	}
	if !env.useCells {
		// named results and locals are still reachable when no parameter shadows them
		if v, ok := r.lookupLocal(env, name); ok {
			return v
		}
	}
	switch name {
	case "true":
		return TTrue
	case "false":
		return TFalse
	case "nil":
		return IntLit(0)
	case "MaxInt64":
		return BigLit(new(big.Int).Sub(pow2(63), big.NewInt(1)))
	case "MaxUint64":
		return BigLit(new(big.Int).Sub(pow2(64), big.NewInt(1)))
	case "MaxInt32":
		return BigLit(new(big.Int).Sub(pow2(31), big.NewInt(1)))
	case "MaxUint32":
		return BigLit(new(big.Int).Sub(pow2(32), big.NewInt(1)))
	case "heaptop":
		return env.st.top
	}
	if c, ok := r.e.cs.Consts[name]; ok {
		return r.evalSpec(c, env)
	}
	if g, ok := r.e.cs.Ghosts[name]; ok {
		return r.ghostTerm(env.st, g)
	}
	if v, ok := grpcCodes[name]; ok {
		return IntLit(v)
	}
	// a package-level variable of the function's package
	if env.pkg != "" {
		if p := r.e.pkgs[env.pkg]; p != nil {
			if g, ok := p.Members[name].(*ssa.Global); ok {
				ptr := r.globalPtr(env.st, g)
				return r.load(env.st, ptr, "spec")
			}
		}
	}
	sfail("%s: unknown identifier %q", env.what, name)
	return nil
}

func (r *FnRun) evalBin(x SBin, env *specEnv) Val {
	switch x.Op {
	case "&&":
		return And(r.evalBool(x.X, env), r.evalBool(x.Y, env))
	case "||":
		return Or(r.evalBool(x.X, env), r.evalBool(x.Y, env))
	case "==>":
		return Imp(r.evalBool(x.X, env), r.evalBool(x.Y, env))
	case "<==>":
		return Eq(r.evalBool(x.X, env), r.evalBool(x.Y, env))
	}
	av := r.evalSpec(x.X, env)
	bv := r.evalSpec(x.Y, env)
	if x.Op == "==" || x.Op == "!=" {
		var eq Term
		at, aok := av.(Term)
		bt, bok := bv.(Term)
		if aok && bok {
			at, bt = r.coerce(at, bt)
			eq = Eq(at, bt)
		} else {
			// nil against slices / pointers / interfaces
			if aok && at.S == "0" {
				av, bv = bv, av
				bt, bok = at, true
			}
			if s, ok := av.(SliceVal); ok && bok && bt.S == "0" {
				eq = Eq(s.Base, IntLit(0))
			} else {
				eq = r.valEq(av, bv)
			}
		}
		if x.Op == "!=" {
			return Not(eq)
		}
		return eq
	}
	a, aok := av.(Term)
	b, bok := bv.(Term)
	if !aok || !bok {
		sfail("%s: operator %s on %T and %T", env.what, x.Op, av, bv)
	}
	a, b = r.coerce(a, b)
	if a.Sort.IsBV() {
		ops := map[string]string{"+": "bvadd", "-": "bvsub", "*": "bvmul", "/": "bvudiv", "%": "bvurem", "&": "bvand", "|": "bvor", "^": "bvxor", "<<": "bvshl", ">>": "bvlshr"}
		cmps := map[string]string{"<": "bvult", "<=": "bvule", ">": "bvugt", ">=": "bvuge"}
		if o, ok := ops[x.Op]; ok {
			return App(o, a.Sort, a, b)
		}
		if o, ok := cmps[x.Op]; ok {
			return App(o, SBool, a, b)
		}
		sfail("operator %s on bit-vectors", x.Op)
	}
	if a.Sort == SStr {
		if x.Op == "<" || x.Op == "<=" || x.Op == ">" || x.Op == ">=" {
			r.declareFun("slt", []Sort{SStr, SStr}, SBool)
			switch x.Op {
			case "<":
				return App("slt", SBool, a, b)
			case ">":
				return App("slt", SBool, b, a)
			case "<=":
				return Not(App("slt", SBool, b, a))
			default:
				return Not(App("slt", SBool, a, b))
			}
		}
		if x.Op == "+" {
			r.declareFun("scat", []Sort{SStr, SStr}, SStr)
			return App("scat", SStr, a, b)
		}
	}
	switch x.Op {
	case "+":
		return Add(a, b)
	case "-":
		return Sub(a, b)
	case "*":
		return App("*", a.Sort, a, b)
	case "/":
		if a.Sort == SReal {
			return App("/", SReal, a, b)
		}
		return App("div", SInt, a, b)
	case "%":
		return App("mod", SInt, a, b)
	case "<":
		return Lt(a, b)
	case "<=":
		return Le(a, b)
	case ">":
		return Gt(a, b)
	case ">=":
		return Ge(a, b)
	case "<<":
		return App("*", SInt, a, r.pow2Term(b))
	case ">>":
		return App("div", SInt, a, r.pow2Term(b))
	}
	sfail("operator %s", x.Op)
	return nil
}

func fieldIndex(t types.Type, name string) (int, *types.Var) {
	stt, ok := under(t).(*types.Struct)
	if !ok {
		return -1, nil
	}
	for i := 0; i < stt.NumFields(); i++ {
		if stt.Field(i).Name() == name {
			return i, stt.Field(i)
		}
	}
	return -1, nil
}

func (r *FnRun) evalSel(x SSel, env *specEnv) Val {
	if id, ok := x.X.(SIdent); ok {
		switch id.Name {
		case "codes":
			if v, ok := grpcCodes[x.Name]; ok {
				return IntLit(v)
			}
		case "io", "local", "buffer", "digest", "util", "context":
			if _, shadow := env.vars[id.Name]; !shadow {
				return r.externGlobal(env.st, id.Name, x.Name)
			}
		}
	}
	v := r.evalSpec(x.X, env)
	return r.selectField(v, x.Name, env)
}

func (r *FnRun) selectField(v Val, name string, env *specEnv) Val {
	switch b := v.(type) {
	case PtrVal:
		i, f := fieldIndex(b.Elem, name)
		if i < 0 {
			// search one level of embedded structs
			if stt, ok := under(b.Elem).(*types.Struct); ok {
				for j := 0; j < stt.NumFields(); j++ {
					if stt.Field(j).Embedded() {
						inner := r.selectField(v, stt.Field(j).Name(), env)
						if k, _ := fieldIndex(typeOfVal(inner), name); k >= 0 {
							return r.selectField(inner, name, env)
						}
					}
				}
			}
			sfail("%s: type %s has no field %q", env.what, b.Elem, name)
		}
		np := b
		np.Elem = f.Type()
		if b.Kind == pkCell {
			np.CPath = append(append([]int(nil), b.CPath...), i)
		} else {
			np.Path = joinPath(b.Path, name)
		}
		if isLockType(f.Type()) || isAtomicType(f.Type()) {
			if isAtomicType(f.Type()) {
				// value of an atomic is its v field
				vp := np
				_, vf := fieldIndex(f.Type(), "v")
				vp.Elem = vf.Type()
				if vp.Kind == pkCell {
					vi, _ := fieldIndex(f.Type(), "v")
					vp.CPath = append(append([]int(nil), np.CPath...), vi)
				} else {
					vp.Path = joinPath(np.Path, "v")
				}
				return r.specLoad(env.st, vp)
			}
			return np // address identity
		}
		return r.specLoad(env.st, np)
	case *StructVal:
		i, _ := fieldIndex(b.T, name)
		if i < 0 {
			sfail("%s: struct %s has no field %q", env.what, b.T, name)
		}
		return b.F[i]
	case SliceVal:
		switch name {
		case "len":
			return b.Len
		case "cap":
			return b.Cap
		case "base":
			return b.Base
		case "off":
			return b.Off
		}
	case IfaceVal:
		if b.Inner != nil {
			return r.selectField(b.Inner, name, env)
		}
	}
	sfail("%s: cannot select %q from %T", env.what, name, v)
	return nil
}

func typeOfVal(v Val) types.Type {
	switch b := v.(type) {
	case PtrVal:
		return b.Elem
	case *StructVal:
		return b.T
	}
	return nil
}

// specLoad reads memory without generating obligations.
func (r *FnRun) specLoad(st *State, p PtrVal) Val {
	switch p.Kind {
	case pkCell:
		v, ok := st.cells[p.Cell]
		if !ok {
			sfail("cell %s not live in this state", p.Cell.name)
		}
		return cellGet(v, p.CPath)
	case pkHeap:
		return r.loadTypedNoAssume(p.Elem, p.Path, func(path string, s Sort) Term {
			return Select(r.heapArr(st, p.Root+"|"+path, s), p.Ref)
		})
	case pkElem:
		return r.loadTypedNoAssume(p.Elem, p.Path, func(path string, s Sort) Term {
			return Select(Select(r.elemArr(st, p.Root+"|"+path, s), p.Base), p.Idx)
		})
	}
	return nil
}

func (r *FnRun) loadTypedNoAssume(t types.Type, path string, rd func(path string, s Sort) Term) Val {
	switch u := under(t).(type) {
	case *types.Struct:
		sv := &StructVal{T: t}
		for i := 0; i < u.NumFields(); i++ {
			sv.F = append(sv.F, r.loadTypedNoAssume(u.Field(i).Type(), joinPath(path, u.Field(i).Name()), rd))
		}
		return sv
	case *types.Slice:
		sl := SliceVal{
			Base: rd(joinPath(path, "base"), SInt), Off: rd(joinPath(path, "off"), r.idxSort()),
			Len: rd(joinPath(path, "len"), r.idxSort()), Cap: rd(joinPath(path, "cap"), r.idxSort()), Elem: u.Elem(),
		}
		// every slice value in memory is well formed (0 <= len <= cap); this is
		// a type invariant of the language, so specifications may rely on it
		if r.cur != nil && !strings.Contains(sl.Len.S, "q_") && !r.cur.ranged[sl.Len.S] {
			r.cur.ranged[sl.Len.S] = true
			r.assumeSliceWF(sl)
		}
		return sl
	}
	tm := rd(path, r.sortOf(t))
	if r.cur != nil && !strings.Contains(tm.S, "q_") {
		r.assumeRange(r.cur, tm, t)
		// whatever a pointer or channel in memory refers to was allocated
		// before now (first mention wins: at function entry that is top0)
		switch under(t).(type) {
		case *types.Pointer, *types.Chan, *types.Interface, *types.Map:
			if tm.Sort == SInt && !r.cur.ranged["sb:"+tm.S] {
				r.cur.ranged["sb:"+tm.S] = true
				r.assume(Le(tm, r.cur.top))
			}
		}
	}
	return r.wrapScalar(tm, t)
}

func (r *FnRun) externGlobal(st *State, pkgAlias, name string) Val {
	paths := map[string]string{
		"io": "io", "context": "context",
		"local":  "github.com/buildbarn/bb-storage/pkg/blobstore/local",
		"buffer": "github.com/buildbarn/bb-storage/pkg/blobstore/buffer",
		"digest": "github.com/buildbarn/bb-storage/pkg/digest",
		"util":   "github.com/buildbarn/bb-storage/pkg/util",
	}
	full := paths[pkgAlias] + "." + name
	gname := "glob_" + sanitize(full)
	if !r.decl[gname] {
		r.declareGlobal(gname, SInt)
		fmt.Fprintf(&r.prelude, "(assert (> %s 0))\n", gname)
		if r.decl["top0"] {
			fmt.Fprintf(&r.prelude, "(assert (<= %s top0))\n", gname)
		}
		for _, o := range r.e.errGlobals(r) {
			if o != gname {
				fmt.Fprintf(&r.prelude, "(assert (not (= %s %s)))\n", gname, o)
			}
		}
		r.e.addErrGlobal(r, gname)
	}
	return IfaceVal{T: Term{gname, SInt}}
}

func (r *FnRun) evalIdx(x SIdx, env *specEnv) Val {
	v := r.evalSpec(x.X, env)
	iv := r.evalSpec(x.I, env)
	i, ok := iv.(Term)
	if !ok {
		if p, ok2 := iv.(PtrVal); ok2 {
			i = r.scalarOf(p)
		} else if f, ok2 := iv.(IfaceVal); ok2 {
			i = f.T
		} else {
			sfail("index is not a term")
		}
	}
	switch b := v.(type) {
	case SliceVal:
		if r.bv && i.Sort == SInt {
			if n, ok := isLit(i); ok {
				i = BVLit(n, 64)
			}
		}
		p := PtrVal{Kind: pkElem, Base: b.Base, Idx: r.pos(b.Off, i), Root: "[]" + typeKey(b.Elem), Elem: b.Elem}
		return r.specLoad(env.st, p)
	case Term:
		if b.Sort.IsArr() {
			return Select(b, i)
		}
		if b.Sort == SStr {
			r.declareFun("sat", []Sort{SStr, SInt}, SInt)
			return App("sat", SInt, b, i)
		}
	}
	sfail("%s: cannot index %T", env.what, v)
	return nil
}

func (r *FnRun) evalQuant(x SQuant, env *specEnv) Val {
	n := *env
	n.bound = map[string]Term{}
	for k, v := range env.bound {
		n.bound[k] = v
	}
	var decls []string
	for i, v := range x.Vars {
		r.ctr++
		name := fmt.Sprintf("q_%s_%d", v, r.ctr)
		s := SInt
		switch x.Types[i] {
		case "int", "ref":
			s = SInt
			if r.bv && x.Types[i] == "int" {
				s = SInt
			}
		case "bool":
			s = SBool
		case "str":
			s = SStr
		case "bv64":
			s = SBV(64)
		case "bv32":
			s = SBV(32)
		case "u64", "u32", "u16", "u8":
			s = r.ms(Sort("@" + x.Types[i]))
		case "intarr":
			s = SArr(SInt, SInt)
		default:
			sfail("unknown quantifier type %q", x.Types[i])
		}
		n.bound[v] = Term{name, s}
		decls = append(decls, fmt.Sprintf("(%s %s)", name, s))
	}
	body := r.evalBool(x.Body, &n)
	q := "forall"
	if !x.Forall {
		q = "exists"
	}
	// Trigger selection for the common shape "for all elements i of a slice":
	// a universally quantified formula over one variable whose element
	// positions are written at(off, i) is instantiated whenever a position
	// at(off, t) is mentioned. (Left to the solver in every other case.)
	if x.Forall && len(x.Vars) == 1 {
		bv := n.bound[x.Vars[0]].S
		pats := atTerms(body.S, bv)
		if len(pats) > 0 && len(pats) <= 3 {
			var ps strings.Builder
			for _, p := range pats {
				fmt.Fprintf(&ps, " :pattern (%s)", p)
			}
			return Term{fmt.Sprintf("(forall (%s) (! %s%s))", strings.Join(decls, " "), body.S, ps.String()), SBool}
		}
	}
	return Term{fmt.Sprintf("(%s (%s) %s)", q, strings.Join(decls, " "), body.S), SBool}
}

func (r *FnRun) argTerm(v Val, env *specEnv) Term {
	switch b := v.(type) {
	case Term:
		return b
	case PtrVal:
		if b.Kind == pkHeap && b.Path == "" {
			return b.Ref
		}
		return r.addrIdent(b)
	case IfaceVal:
		// an interface known to hold a pointer is identified with the object
		// it points to, so that ghost state keyed by the object is shared
		// between code that sees the pointer and code that sees the interface
		if p, ok := b.Inner.(PtrVal); ok && p.Kind == pkHeap && p.Path == "" {
			return p.Ref
		}
		return b.T
	case ClosureVal:
		return b.T
	case SliceVal:
		return b.Base
	case *StructVal:
		// a struct with a single field (digest.Digest, digest.InstanceName) is
		// represented by that field
		if len(b.F) == 1 {
			return r.argTerm(b.F[0], env)
		}
	}
	sfail("%s: argument %T is not a term", env.what, v)
	return Term{}
}

// addrIdent gives an interior address (e.g. of an embedded mutex) an identity.
func (r *FnRun) addrIdent(p PtrVal) Term {
	if p.Kind == pkHeap {
		if p.Path == "" {
			return p.Ref
		}
		r.declareFun("fieldaddr", []Sort{SInt, SInt}, SInt)
		code, ok := r.fcodes[p.Root+"|"+p.Path]
		if !ok {
			code = len(r.fcodes) + 1
			r.fcodes[p.Root+"|"+p.Path] = code
		}
		t := App("fieldaddr", SInt, p.Ref, IntLit(int64(code)))
		// interior addresses are distinct from object references (which are
		// >= 0) and from each other
		r.declareFun("fa_ref", []Sort{SInt}, SInt)
		r.declareFun("fa_code", []Sort{SInt}, SInt)
		if r.cur != nil && !strings.Contains(t.S, "q_") && !r.cur.ranged["fa:"+t.S] {
			r.cur.ranged["fa:"+t.S] = true
			r.assume(And(Lt(t, IntLit(0)), Eq(App("fa_ref", SInt, t), p.Ref), Eq(App("fa_code", SInt, t), IntLit(int64(code)))))
		}
		return t
	}
	if p.Kind == pkCell {
		return IntLit(int64(-1000 - p.Cell.id))
	}
	sfail("address identity of slice element")
	return Term{}
}

func (r *FnRun) evalCall(x SCall, env *specEnv) Val {
	args := func() []Val {
		var out []Val
		for _, a := range x.Args {
			out = append(out, r.evalSpec(a, env))
		}
		return out
	}
	switch x.Fun {
	case "old":
		if env.old == nil {
			sfail("%s: old() has no meaning here", env.what)
		}
		n := *env
		n.st = env.old
		n.useCells = false
		return r.evalSpec(x.Args[0], &n)
	case "len", "cap":
		v := r.evalSpec(x.Args[0], env)
		switch b := v.(type) {
		case SliceVal:
			if x.Fun == "len" {
				return b.Len
			}
			return b.Cap
		case Term:
			if b.Sort == SStr {
				return r.strLen(b)
			}
		}
		sfail("%s: len of %T", env.what, v)
	case "ite":
		c := r.evalBool(x.Args[0], env)
		a := r.evalSpec(x.Args[1], env).(Term)
		b := r.evalSpec(x.Args[2], env).(Term)
		a, b = r.coerce(a, b)
		return Ite(c, a, b)
	case "min", "max":
		a := r.evalSpec(x.Args[0], env).(Term)
		b := r.evalSpec(x.Args[1], env).(Term)
		if x.Fun == "min" {
			return Ite(Le(a, b), a, b)
		}
		return Ite(Ge(a, b), a, b)
	case "code":
		r.declareFun("ecode", []Sort{SInt}, SInt)
		return App("ecode", SInt, r.argTerm(r.evalSpec(x.Args[0], env), env))
	case "dtype":
		r.declareFun("dtype", []Sort{SInt}, SInt)
		return App("dtype", SInt, r.argTerm(r.evalSpec(x.Args[0], env), env))
	case "typeis":
		r.declareFun("dtype", []Sort{SInt}, SInt)
		name := x.Args[1].(SStrL).Val
		code := r.e.typeCodeByName(name, env.pkg)
		tv := r.evalSpec(x.Args[0], env)
		if iv, ok := tv.(IfaceVal); ok {
			if iv.Dyn != nil {
				// the dynamic type is known on this path
				if r.e.typeCode(iv.Dyn) == code {
					return TTrue
				}
				return TFalse
			}
			return Eq(App("dtype", SInt, iv.T), IntLit(int64(code)))
		}
		return Eq(App("dtype", SInt, r.argTerm(tv, env)), IntLit(int64(code)))
	case "as":
		// as(x, "*pkg.T"): the pointer an interface value holds, for use under a
		// typeis(x, "*pkg.T") guard (meaningless otherwise): lets a clause speak
		// about the fields of the object behind an interface-typed result
		name := x.Args[1].(SStrL).Val
		tv := r.evalSpec(x.Args[0], env)
		iv, ok := tv.(IfaceVal)
		if !ok {
			return tv
		}
		if iv.Inner != nil {
			return iv.Inner
		}
		if !strings.HasPrefix(name, "*") {
			sfail("%s: as(x, T) needs a pointer type", env.what)
		}
		elem := r.e.lookupType(env.pkg, strings.TrimPrefix(name, "*"))
		if elem == nil {
			sfail("%s: as: unknown type %q", env.what, name)
		}
		code := r.e.typeCode(types.NewPointer(elem))
		unbox := fmt.Sprintf("iunbox_%d", code)
		r.declareFun(unbox, []Sort{SInt}, SInt)
		return PtrVal{Kind: pkHeap, Ref: App(unbox, SInt, iv.T), Root: r.rootKey(elem), Elem: elem}
	case "fresh":
		t := r.argTerm(r.evalSpec(x.Args[0], env), env)
		top := env.oldTop
		if top.S == "" && env.old != nil {
			top = env.old.top
		}
		return Gt(t, top)
	case "first":
		// first(s): position of s[0] inside its backing array (elems(s)[first(s)] is s[0])
		v := r.evalSpec(x.Args[0], env)
		s, ok := v.(SliceVal)
		if !ok {
			sfail("first of %T", v)
		}
		return r.pos(s.Off, IntLit(0))
	case "born":
		// born(x): the local variable x has come into existence on this path
		// (a clause about a local that an early return never reached would
		// otherwise have to hold for an arbitrary value)
		id, ok := x.Args[0].(SIdent)
		if !ok || env.fr == nil {
			sfail("born() takes the name of a local variable")
		}
		for v := range env.fr.vals {
			if a, ok := v.(*ssa.Alloc); ok && a.Comment == id.Name {
				return TTrue
			}
		}
		return TFalse
	case "has", "visited", "mapget":
		// has(m, k): key k is in the map held by the local variable (or
		// parameter) m. visited(m, k): the iteration "range m" has already
		// handed out key k (loop invariants of that iteration). mapget(m, k):
		// the value stored under k (meaningful only where has(m, k)).
		id, isIdent := x.Args[0].(SIdent)
		if env.fr == nil {
			// evaluated outside the function whose variables it names (a call site)
			sfail("%s: unknown identifier: %s(…) speaks about the callee's own maps", env.what, x.Fun)
		}
		if len(x.Args) != 2 || (x.Fun == "visited" && !isIdent) {
			sfail("%s: %s(m, k) takes a map variable (or field) and a key", env.what, x.Fun)
		}
		mt := specExprType(env.fr.fn, x.Args[0])
		if mt == nil {
			sfail("%s: %s: cannot tell the type of the map expression", env.what, x.Fun)
		}
		if _, ok := under(mt).(*types.Map); !ok {
			sfail("%s: %s: not a map", env.what, x.Fun)
		}
		k := r.keyTerm(r.evalSpec(x.Args[1], env))
		if x.Fun == "has" {
			m := termOf(r.evalSpec(x.Args[0], env))
			_, dom := r.mapDom(env.st, mt)
			return Select(Select(dom, m), k)
		}
		if x.Fun == "mapget" {
			m := termOf(r.evalSpec(x.Args[0], env))
			_, vt := r.mapKeys(mt)
			return r.loadTypedNoAssume(vt, "", func(path string, s Sort) Term {
				_, arr := r.mapValArr(env.st, mt, path, s)
				return Select(Select(arr, m), k)
			})
		}
		var found *ssa.Range
		for _, b := range env.fr.fn.Blocks {
			for _, in := range b.Instrs {
				rng, ok := in.(*ssa.Range)
				if !ok {
					continue
				}
				if u, ok := rng.X.(*ssa.UnOp); ok {
					if a, ok := u.X.(*ssa.Alloc); ok && a.Comment == id.Name {
						if found != nil {
							sfail("%s: visited(%s, …): more than one iteration over %s", env.what, id.Name, id.Name)
						}
						found = rng
					}
				}
			}
		}
		if found == nil {
			sfail("%s: visited(%s, …): no iteration over %s", env.what, id.Name, id.Name)
		}
		vis, ok := env.st.ghost[iterKey(found)]
		if !ok {
			// the iteration has not begun on this path
			return TFalse
		}
		return Select(vis, k)
	case "base":
		// identity of the backing array of a slice (0 for a nil slice)
		v := r.evalSpec(x.Args[0], env)
		s, ok := v.(SliceVal)
		if !ok {
			sfail("base of %T", v)
		}
		return s.Base
	case "allocated":
		// the reference exists in the state the expression is evaluated in
		// (anything allocated later is different from it)
		t := r.argTerm(r.evalSpec(x.Args[0], env), env)
		return Le(t, env.st.top)
	case "unchanged":
		n := *env
		n.st = env.old
		n.useCells = false
		a := r.evalSpec(x.Args[0], env)
		b := r.evalSpec(x.Args[0], &n)
		return r.valEq(a, b)
	case "elems":
		v := r.evalSpec(x.Args[0], env)
		s, ok := v.(SliceVal)
		if !ok {
			sfail("elems of %T", v)
		}
		key := "[]" + typeKey(s.Elem) + "|"
		return Select(r.elemArr(env.st, key, r.sortOf(s.Elem)), s.Base)
	case "addr":
		v := r.evalSpec(x.Args[0], env)
		if p, ok := v.(PtrVal); ok {
			return r.addrIdent(p)
		}
		sfail("addr of %T", v)
	case "tinv", "tstep":
		// the declared (one- or two-state) type invariant of the object x refers
		// to (true when its dynamic type is not known or has none declared).
		// The object itself is identified in the pre-state.
		v := r.evalSpec(x.Args[0], env)
		if iv, ok := v.(IfaceVal); ok {
			if iv.Inner == nil {
				return TTrue
			}
			v = iv.Inner
		}
		p, ok := v.(PtrVal)
		if !ok {
			return TTrue
		}
		ti := r.e.cs.TypeInvs[typeKey(p.Elem)]
		if x.Fun == "tstep" {
			ti = r.e.cs.TypeSteps[typeKey(p.Elem)]
		}
		if ti == nil {
			return TTrue
		}
		n := env.with(map[string]Val{ti.Params[0]: p})
		n.useCells = false
		n.fr = nil
		n.bound = nil
		return r.evalSpec(ti.Body, n)
	case "pow2":
		return r.pow2Term(r.evalSpec(x.Args[0], env).(Term))
	case "bv2int":
		t := r.evalSpec(x.Args[0], env).(Term)
		return App("bv2nat", SInt, t)
	case "zext64":
		t := r.evalSpec(x.Args[0], env).(Term)
		w := t.Sort.BVWidth()
		if w == 64 {
			return t
		}
		return App(fmt.Sprintf("(_ zero_extend %d)", 64-w), SBV(64), t)
	case "bv":
		// bv(n, width)
		n, _ := isLit(r.evalSpec(x.Args[0], env).(Term))
		w, _ := isLit(r.evalSpec(x.Args[1], env).(Term))
		return BVLit(n, int(w.Int64()))
	case "slt", "sle", "sgt", "sge":
		a := r.evalSpec(x.Args[0], env).(Term)
		b := r.evalSpec(x.Args[1], env).(Term)
		a, b = r.coerce(a, b)
		return App("bv"+x.Fun, SBool, a, b)
	}
	if p, ok := r.e.cs.Pures[x.Fun]; ok {
		if len(p.Params) != len(x.Args) {
			sfail("%s: pure %s expects %d arguments", env.what, x.Fun, len(p.Params))
		}
		vars := map[string]Val{}
		for i, a := range args() {
			vars[p.Params[i]] = a
		}
		n := env.with(vars)
		n.useCells = false
		n.fr = nil
		n.bound = nil // the body sees its parameters only (no capture of the caller's bound variables)
		return r.evalSpec(p.Body, n)
	}
	if g, ok := r.e.cs.Ghosts[x.Fun]; ok {
		t := r.ghostTerm(env.st, g)
		for _, a := range args() {
			t = Select(t, r.argTerm(a, env))
		}
		return t
	}
	if u, ok := r.e.cs.UFuncs[x.Fun]; ok {
		as := r.msl(u.Args)
		r.declareFun("uf_"+u.Name, as, r.ms(u.Res))
		var ts []Term
		for i, a := range args() {
			t := r.argTerm(a, env)
			if i < len(as) && as[i].IsBV() && t.Sort == SInt {
				if n, ok := isLit(t); ok {
					t = BVLit(n, as[i].BVWidth())
				}
			}
			ts = append(ts, t)
		}
		if len(ts) == 0 {
			return Term{"uf_" + u.Name, r.ms(u.Res)}
		}
		return App("uf_"+u.Name, r.ms(u.Res), ts...)
	}
	sfail("%s: unknown function %q in specification", env.what, x.Fun)
	return nil
}

func isLockType(t types.Type) bool {
	k := typeKey(t)
	return k == "sync.Mutex" || k == "sync.RWMutex"
}

func isAtomicType(t types.Type) bool {
	k := typeKey(t)
	return strings.HasPrefix(k, "sync/atomic.")
}

// obligeClause splits a clause into its top-level conjuncts (looking through
// pure definitions) so that a failure names the conjunct.
func (r *FnRun) obligeClause(kind, label string, e SExpr, env *specEnv, st *State) {
	type part struct {
		e   SExpr
		env *specEnv
		tag string
	}
	var parts []part
	var flat func(e SExpr, env *specEnv, tag string)
	flat = func(e SExpr, env *specEnv, tag string) {
		switch x := e.(type) {
		case SBin:
			if x.Op == "&&" {
				flat(x.X, env, tag)
				flat(x.Y, env, tag)
				return
			}
		case SCall:
			if p, ok := r.e.cs.Pures[x.Fun]; ok && len(p.Params) == len(x.Args) {
				vars := map[string]Val{}
				for i, a := range x.Args {
					vars[p.Params[i]] = r.evalSpec(a, env)
				}
				n := env.with(vars)
				n.useCells = false
				n.fr = nil
				n.bound = nil
				flat(p.Body, n, tag+x.Fun+".")
				return
			}
		}
		parts = append(parts, part{e, env, tag})
	}
	flat(e, env, "")
	if len(parts) == 1 {
		r.oblige(kind, label, r.evalBool(parts[0].e, parts[0].env), st)
		return
	}
	// The conjunction as a whole is tried first (one query); only if that does
	// not go through are the conjuncts checked one by one to name the culprit.
	var goals []Term
	for _, p := range parts {
		goals = append(goals, r.evalBool(p.e, p.env))
	}
	gate := &OblInst{Name: fmt.Sprintf("%s:%s:%s/*", shortName(r.name), kind, label), Kind: "GATE", Desc: label, Ctx: st.ctx, Goal: And(goals...), Path: fmtPath(st.path), Seq: len(r.obls)}
	if gate.Goal.S != "true" && r.c != nil && r.c.Opts["gate"] != "" {
		r.obls = append(r.obls, gate)
	} else {
		gate = nil
	}
	for i, p := range parts {
		n := len(r.obls)
		r.oblige(kind, fmt.Sprintf("%s/%s%d", label, p.tag, i), goals[i], st)
		if gate != nil && len(r.obls) > n {
			r.obls[len(r.obls)-1].Gate = gate
		}
	}
}

// ms resolves the mode-dependent machine-integer sorts "@u64" etc.
func (r *FnRun) ms(s Sort) Sort {
	if strings.HasPrefix(string(s), "@u") {
		if r.bv {
			var n int
			fmt.Sscanf(string(s), "@u%d", &n)
			return SBV(n)
		}
		return SInt
	}
	return s
}

func (r *FnRun) msl(ss []Sort) []Sort {
	out := make([]Sort, len(ss))
	for i, s := range ss {
		out[i] = r.ms(s)
	}
	return out
}
