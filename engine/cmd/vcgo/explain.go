package main

import (
	"fmt"
	"os"
	"path/filepath"
	"sort"
	"strings"
)

// goalAtoms extracts the outermost (select ...) applications, uninterpreted
// function applications and plain symbols of a goal so that their values can
// be asked from the solver after a "sat" answer.
func goalAtoms(goal string) []string {
	seen := map[string]bool{}
	var out []string
	add := func(s string) {
		if !seen[s] && len(s) < 600 {
			seen[s] = true
			out = append(out, s)
		}
	}
	// balanced sub-expressions starting with "(select " or "(uf_"
	for i := 0; i < len(goal); i++ {
		if strings.HasPrefix(goal[i:], "(select ") || strings.HasPrefix(goal[i:], "(uf_") || strings.HasPrefix(goal[i:], "(slen ") || strings.HasPrefix(goal[i:], "(ecode ") {
			depth := 0
			for j := i; j < len(goal); j++ {
				if goal[j] == '(' {
					depth++
				} else if goal[j] == ')' {
					depth--
					if depth == 0 {
						sub := goal[i : j+1]
						if !strings.Contains(sub, "q_") {
							add(sub)
						}
						i = j
						break
					}
				}
			}
		}
	}
	// symbols
	for _, f := range strings.FieldsFunc(goal, func(r rune) bool { return r == '(' || r == ')' || r == ' ' }) {
		if f == "" {
			continue
		}
		c := f[0]
		if (c >= 'a' && c <= 'z' || c >= 'A' && c <= 'Z') && strings.ContainsAny(f, "_0123456789") && !strings.HasPrefix(f, "q_") && !strings.HasPrefix(f, "uf_") {
			switch f {
			case "select", "store", "and", "or", "not", "ite", "div", "mod", "forall", "exists", "Int", "Bool", "true", "false", "let", "slen", "ecode":
			default:
				if !strings.HasPrefix(f, "H_") && !strings.HasPrefix(f, "M_") && !strings.HasPrefix(f, "G_") && !strings.HasPrefix(f, "h_") && !strings.HasPrefix(f, "m_") && !strings.HasPrefix(f, "hv_") {
					add(f)
				}
			}
		}
	}
	sort.Strings(out)
	return out
}

// goalValues asks the first solver that answers sat for the values of the
// goal's atoms.
func (r *FnRun) goalValues(o *OblInst, workDir string, timeoutMs int) string {
	atoms := goalAtoms(o.Goal.S)
	if len(atoms) == 0 {
		return ""
	}
	q := r.standalone(o, false)
	q += "(get-value (" + strings.Join(atoms, " ") + "))\n"
	qf := filepath.Join(workDir, fmt.Sprintf("%s.values%d.smt2", sanitize(r.name), o.Seq))
	os.WriteFile(qf, []byte(q), 0o644)
	for _, sp := range solvers[:2] {
		out, _ := runSolver(sp, qf, timeoutMs, timeoutMs+5000)
		w := firstWords(out)
		if len(w) > 0 && w[0] == "sat" {
			i := strings.Index(out, "sat")
			return sp.name + ":" + out[i+3:]
		}
	}
	return ""
}
