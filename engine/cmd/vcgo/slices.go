package main

import (
	"fmt"
	"go/types"
	"strings"
)

// Element positions. A slice (base, off, len, cap) stores element i at
// position pos(off, i) of its backing array. For off == 0 that is i itself.
// Otherwise the position is written with the uninterpreted function
//
//	at(off, i)        (injective in i: unat(off, at(off, i)) = i)
//
// instead of off + i: quantified facts about "all elements of s" then have
// the trigger at(off, i), which matches syntactically; arithmetic inside
// triggers does not. Reslicing s[lo:] yields a new offset constant o2 with
// the axiom  at(o2, i) = pos(off, i + lo).
func (r *FnRun) pos(off, i Term) Term {
	if r.bv {
		return r.idxAdd(off, i)
	}
	if off.S == "0" {
		return i
	}
	r.declareAt()
	if r.cur != nil && !r.cur.ranged["at:"+off.S] && !containsBound(off.S) {
		r.cur.ranged["at:"+off.S] = true
		r.assume(Term{fmt.Sprintf("(forall ((i Int)) (! (= (unat %s (at %s i)) i) :pattern ((at %s i))))", off.S, off.S, off.S), SBool})
	}
	return App("at", SInt, off, i)
}

// contentsFor: "opt contents" tracks the contents of every slice that is
// appended to; "opt contents T1 T2" only of slices whose element type is
// named (int, uint64, persistentBlockInfo, ...).
func (r *FnRun) contentsFor(elem types.Type) bool {
	if !r.contents {
		return false
	}
	spec := r.c.Opts["contents"]
	if spec == "true" {
		return true
	}
	k := typeKey(elem)
	for _, f := range strings.Fields(spec) {
		if k == f || strings.HasSuffix(k, "."+f) {
			return true
		}
	}
	return false
}

// appendCase models one of the two outcomes of append(s, t...) with element
// contents: inPlace (the elements fit into the capacity; the backing array is
// updated) or reallocation (a new backing array with a copy of the old
// elements followed by the new ones). The case condition is assumed.
func (r *FnRun) appendCase(st *State, s SliceVal, tv Val, where string, inPlace bool) Val {
	var tLen, tBase, tOff Term
	isStr := false
	switch t := tv.(type) {
	case SliceVal:
		tLen, tBase, tOff = t.Len, t.Base, t.Off
	case Term:
		tLen = r.strLen(t)
		isStr = true
	default:
		unsup("append of %T", tv)
	}
	newLen := r.define("applen", Add(s.Len, tLen))
	r.oblige("OVF", where+":append-len", Le(newLen, BigLit(pow2(62))), st)
	fits := Le(newLen, s.Cap)
	var res SliceVal
	nb := s.Base
	if inPlace {
		r.assume(fits)
		res = SliceVal{Base: s.Base, Off: s.Off, Len: newLen, Cap: s.Cap, Elem: s.Elem}
	} else {
		r.assume(Not(fits))
		nb = r.fresh("app_base", SInt)
		r.assume(Eq(nb, Add(st.top, IntLit(1))))
		st.top = nb
		ncap := r.fresh("app_cap", SInt)
		r.assume(And(Le(newLen, ncap), Le(ncap, BigLit(pow2(62)))))
		res = SliceVal{Base: nb, Off: IntLit(0), Len: newLen, Cap: ncap, Elem: s.Elem}
	}
	nlit, ok := isLit(tLen)
	if isStr || !ok || nlit.Int64() > 4 {
		r.note("append of a slice of unknown length: contents of the result havocked")
		r.havocArgs(st, []Val{res})
		return res
	}
	var ls []leaf
	r.leafPaths(s.Elem, "", &ls)
	for _, l := range ls {
		key := "[]" + typeKey(s.Elem) + "|" + l.path
		arr := r.elemArr(st, key, l.sort)
		oldA := Select(arr, s.Base)
		tA := Select(arr, tBase)
		var newArr Term
		if inPlace {
			newArr = oldA
			for j := int64(0); j < nlit.Int64(); j++ {
				newArr = Store(newArr, r.pos(s.Off, Add(s.Len, IntLit(j))), Select(tA, r.pos(tOff, IntLit(j))))
			}
		} else {
			newArr = r.fresh("app_elems", SArr(SInt, l.sort))
			r.assume(Term{fmt.Sprintf("(forall ((i Int)) (! (=> (and (<= 0 i) (< i %s)) (= (select %s i) (select %s %s))) :pattern ((select %s i))))",
				s.Len.S, newArr.S, oldA.S, r.posStr(s.Off, "i"), newArr.S), SBool})
			for j := int64(0); j < nlit.Int64(); j++ {
				r.assume(Eq(Select(newArr, Add(s.Len, IntLit(j))), Select(tA, r.pos(tOff, IntLit(j)))))
			}
		}
		na := r.fresh("m_"+shortKey(key), arr.Sort)
		r.assume(Eq(na, Store(arr, nb, newArr)))
		st.heap[key] = na
	}
	return res
}

// atTerms returns the distinct terms "(at OFF v)" of s whose second argument
// is exactly the bound variable v and whose OFF mentions no bound variable.
func atTerms(s, v string) []string {
	var out []string
	seen := map[string]bool{}
	for i := 0; i+4 < len(s); i++ {
		if s[i:i+4] != "(at " {
			continue
		}
		depth := 0
		for j := i; j < len(s); j++ {
			if s[j] == '(' {
				depth++
			} else if s[j] == ')' {
				depth--
				if depth == 0 {
					t := s[i : j+1]
					if len(t) > len(v)+2 && t[len(t)-len(v)-2:] == " "+v+")" {
						off := t[4 : len(t)-len(v)-2]
						if !containsBound(off) && !seen[t] {
							seen[t] = true
							out = append(out, t)
						}
					}
					break
				}
			}
		}
	}
	return out
}

// declareAt declares at/unat and the axiom at(0, i) = i (an offset that has
// travelled through memory is a term, not the literal 0).
func (r *FnRun) declareAt() {
	if r.decl["at"] {
		return
	}
	r.declareFun("at", []Sort{SInt, SInt}, SInt)
	r.declareFun("unat", []Sort{SInt, SInt}, SInt)
	fmt.Fprintf(&r.prelude, "(assert (forall ((i Int)) (! (= (at 0 i) i) :pattern ((at 0 i)))))\n")
}

func containsBound(s string) bool {
	for i := 0; i+1 < len(s); i++ {
		if s[i] == 'q' && s[i+1] == '_' && (i == 0 || s[i-1] == ' ' || s[i-1] == '(') {
			return true
		}
	}
	return false
}

// posStr is pos() for a bound-variable name inside a hand-written quantifier.
func (r *FnRun) posStr(off Term, i string) string {
	if off.S == "0" {
		return i
	}
	return r.pos(off, Term{i, SInt}).S
}

// shiftedOff returns the offset of s[lo:...]: off+lo in closed form when that
// is a literal, otherwise a fresh constant tied to the old offset by the shift
// axiom.
func (r *FnRun) shiftedOff(off, lo Term) Term {
	if r.bv {
		return r.idxAdd(off, lo)
	}
	if lo.S == "0" {
		return off
	}
	if off.S == "0" {
		if _, ok := isLit(lo); ok {
			// literal offsets keep pos() syntactic: at(k, i) with the axiom below
		}
	}
	o2 := r.fresh("off", SInt)
	r.declareAt()
	inner := r.posStr(off, fmt.Sprintf("(+ i %s)", lo.S))
	r.assume(Term{fmt.Sprintf("(forall ((i Int)) (! (= (at %s i) %s) :pattern ((at %s i))))", o2.S, inner, o2.S), SBool})
	r.assume(Ge(o2, IntLit(0)))
	return o2
}
