package main

// ghostAssign performs "g(x) := e when cond" on the ghost state (used for
// exitghost clauses: ghost updates a function performs on its way out, the
// counterpart of the ghost code a verifier with ghost statements would allow
// inside the body).
func (r *FnRun) ghostAssign(st *State, gs GhostSet, env *specEnv) {
	call, ok := gs.Target.(SCall)
	var g *GhostDecl
	var idx []Term
	if ok {
		g = r.e.cs.Ghosts[call.Fun]
		for _, a := range call.Args {
			idx = append(idx, r.argTerm(r.evalSpec(a, env), env))
		}
	} else if id, isID := gs.Target.(SIdent); isID {
		g = r.e.cs.Ghosts[id.Name]
	}
	if g == nil {
		sfail("%s: target is not a ghost", env.what)
	}
	if len(idx) != g.Arity {
		sfail("%s: ghost %s takes %d arguments", env.what, g.Name, g.Arity)
	}
	cond := r.evalBool(gs.Cond, env)
	val := r.argTerm(r.evalSpec(gs.Val, env), env)
	arr := r.ghostTerm(st, g)
	var na Term
	switch g.Arity {
	case 0:
		na = Ite(cond, val, arr)
	case 1:
		na = Store(arr, idx[0], Ite(cond, val, Select(arr, idx[0])))
	case 2:
		inner := Select(arr, idx[0])
		na = Store(arr, idx[0], Store(inner, idx[1], Ite(cond, val, Select(inner, idx[1]))))
	default:
		sfail("%s: ghost arity %d not supported", env.what, g.Arity)
	}
	nn := r.fresh("G_"+g.Name, arr.Sort)
	r.assume(Eq(nn, na))
	st.ghost[g.Name] = nn
}
