package main

import (
	"fmt"
	"go/types"
	"os"
	"runtime/debug"
	"strings"
	"time"

	"golang.org/x/tools/go/ssa"
)

func (e *Engine) newRun(name string, ct *Contract) *FnRun {
	r := &FnRun{
		e: e, c: ct, name: name, decl: map[string]bool{}, notes: map[string]bool{}, strLits: map[string]Term{},
		fcodes: map[string]int{}, oblSeq: map[string]int{}, writes: map[string]bool{}, start: time.Now(),
	}
	if ct != nil {
		r.bv = ct.Arith == "bv"
		r.wraps = ct.Opts["wraps"] != ""
		r.contents = ct.Opts["contents"] != ""
		r.linear = ct.Opts["linear"] != "" || len(e.cs.Linear) > 0 && ct.Opts["nolinear"] == ""
	}
	return r
}

func (r *FnRun) initialState() *State {
	st := &State{heap: map[string]Term{}, ghost: map[string]Term{}, cells: map[*Cell]Val{}, globals: map[string]Val{}, ranged: map[string]bool{}, hv: map[string]bool{}}
	r.declareGlobal("top0", SInt)
	fmt.Fprintf(&r.prelude, "(assert (>= top0 0))\n")
	st.top = Term{"top0", SInt}
	return st
}

func (r *FnRun) emitAxioms(st *State) {
	env := &specEnv{st: st, old: st, vars: map[string]Val{}, what: "axiom"}
	for _, ax := range r.e.cs.Axioms {
		func() {
			defer func() {
				if x := recover(); x != nil {
					if _, ok := x.(specFail); ok {
						return // axiom mentions symbols foreign to this mode; skip
					}
					panic(x)
				}
			}()
			r.assume(r.evalBool(ax.E, env))
		}()
	}
}

// verifyFunc generates and collects all VCs of one function against its contract.
func (e *Engine) verifyFunc(fn *ssa.Function, ct *Contract) (r *FnRun) {
	r = e.newRun(ct.Name, ct)
	r.fn = fn
	defer func() {
		if x := recover(); x != nil {
			switch v := x.(type) {
			case unsupported:
				r.fail = "outside subset: " + v.reason
				if os.Getenv("VCGO_DEBUG") != "" { // development aid
					fmt.Fprintf(os.Stderr, "%s: %s\n%s\n", ct.Name, v.reason, debug.Stack())
				}
			case specFail:
				r.fail = "contract does not bind: " + v.msg
			default:
				r.fail = fmt.Sprintf("engine error: %v\n%s", x, debug.Stack())
			}
		}
		r.wallMs = time.Since(r.start).Milliseconds()
	}()
	if len(fn.Blocks) == 0 {
		r.fail = "function has no body"
		return r
	}
	st := r.initialState()
	r.cur = st
	fr := &Frame{fn: fn, c: ct, vals: map[ssa.Value]Val{}, loops: analyzeLoops(fn), seen: map[*ssa.BasicBlock]int{}, env: map[string]Val{}, top: true}
	for i, p := range fn.Params {
		v := r.freshVal(st, p.Type(), "p_"+p.Name())
		fr.vals[p] = v
		fr.env[p.Name()] = v
		r.boundedBy(st.top, v) // whatever a parameter refers to exists already
		if i == 0 && fn.Signature.Recv() != nil {
			if pv, ok := v.(PtrVal); ok {
				r.assume(Gt(pv.Ref, IntLit(0)))
				r.note("receiver assumed non-nil")
			}
		}
	}
	for _, fv := range fn.FreeVars {
		pt, ok := fv.Type().(*types.Pointer)
		if !ok {
			unsup("free variable %s of non-pointer type", fv.Name())
		}
		if _, isStruct := under(pt.Elem()).(*types.Struct); isStruct && false {
			continue
		}
		c := r.newCell(st, pt.Elem(), fv.Name())
		c.escaped = false
		c.freevar = true
		st.cells[c] = r.freshVal(st, pt.Elem(), "fv_"+fv.Name())
		fr.vals[fv] = PtrVal{Kind: pkCell, Cell: c, Elem: pt.Elem()}
		fr.env[fv.Name()] = st.cells[c]
	}
	r.emitAxioms(st)
	pkg := fnPkgPath(fn)
	pre := &specEnv{st: st, old: st, vars: fr.env, pkg: pkg, oldTop: st.top}
	for _, cl := range ct.Requires {
		pre.what = ct.Name + " requires " + cl.Label
		r.assume(r.evalBool(cl.E, pre))
	}
	if ct.Opts["linear-params"] != "" || r.linear {
		for _, p := range fn.Params {
			if r.isLinearType(p.Type()) {
				borrowed := false
				for _, b := range ct.Borrows {
					if b == p.Name() {
						borrowed = true
					}
				}
				if !borrowed {
					r.linearResults(st, []Val{fr.vals[p]}, []types.Type{p.Type()}, "entry", "parameter "+p.Name())
				}
			}
		}
	}
	if r.linear {
		// a closure owns the linear resources it captured
		for _, fv := range fn.FreeVars {
			pt := fv.Type().(*types.Pointer)
			if !r.isLinearType(pt.Elem()) {
				continue
			}
			borrowed := false
			for _, b := range ct.Borrows {
				if b == fv.Name() {
					borrowed = true
				}
			}
			if !borrowed {
				r.linearResults(st, []Val{fr.env[fv.Name()]}, []types.Type{pt.Elem()}, "entry", "captured "+fv.Name())
			}
		}
	}
	fr.old = st.clone()
	if e.covers {
		r.cover("entry", st)
	}
	if uf := ct.Opts["deterministic"]; uf != "" {
		name, args := splitDeterministic(uf)
		var why string
		if args == nil {
			why = e.purityScan(fn)
		} else {
			why = e.deterministicScan(fn, args)
		}
		r.staticObl("FRAME", "deterministic:"+name, why == "", "result is a function of the declared arguments only: "+why, st)
	}
	r.execBlock(fr, st, fn.Blocks[0], nil, func(fr2 *Frame, st2 *State, res []Val) {
		r.cur = st2
		r.checkPost(fr2, st2, res)
		r.endPath(st2)
	})
	return r
}

func (r *FnRun) checkPost(fr *Frame, st *State, res []Val) {
	ct := r.c
	vars := map[string]Val{}
	for k, v := range fr.env {
		vars[k] = v
	}
	rs := fr.fn.Signature.Results()
	for i := 0; i < rs.Len(); i++ {
		n := rs.At(i).Name()
		if n != "" && n != "_" {
			vars[n] = res[i]
		}
		vars[fmt.Sprintf("result%d", i)] = res[i]
	}
	if rs.Len() == 1 {
		vars["result"] = res[0]
	}
	if rs.Len() > 0 && types.Identical(rs.At(rs.Len()-1).Type(), errType) {
		if _, taken := vars["err"]; !taken {
			vars["err"] = res[rs.Len()-1]
		}
	}
	env := &specEnv{st: st, old: fr.old, vars: vars, pkg: fnPkgPath(fr.fn), oldTop: fr.old.top, fr: fr}
	for _, gs := range ct.ExitGhost {
		env.what = ct.Name + " exitghost " + gs.Src
		r.ghostAssign(st, gs, env)
	}
	for _, cl := range ct.Ensures {
		env.what = ct.Name + " ensures " + cl.Label
		r.obligeClause("POST", cl.Label, cl.E, env, st)
	}
	r.linearExit(st, res, "return")
	// locks: unless the contract lists "held" in its frame, every lock is left
	// as it was found
	if g, ok := r.e.cs.Ghosts["held"]; ok {
		if _, touched := st.ghost["held"]; touched {
			listed := false
			for _, m := range ct.Modifies {
				if strings.HasPrefix(m.Src, "held") {
					listed = true
				}
			}
			if !listed {
				r.oblige("LOCK", "balanced", Eq(r.ghostTerm(st, g), r.ghostTerm(fr.old, g)), st)
			}
		}
	}
}

// verifyLemma checks requires ==> ensures over the declared variables.
func (e *Engine) verifyLemma(ct *Contract) (r *FnRun) {
	r = e.newRun(ct.Name, ct)
	defer func() {
		if x := recover(); x != nil {
			switch v := x.(type) {
			case unsupported:
				r.fail = "outside subset: " + v.reason
			case specFail:
				r.fail = "lemma does not bind: " + v.msg
			default:
				r.fail = fmt.Sprintf("engine error: %v\n%s", x, debug.Stack())
			}
		}
		r.wallMs = time.Since(r.start).Milliseconds()
	}()
	st := r.initialState()
	r.cur = st
	vars := map[string]Val{}
	for i, p := range ct.Params {
		vars[p] = r.fresh("lv_"+p, r.ms(parseSort(ct.PTypes[i])))
	}
	r.emitAxioms(st)
	env := &specEnv{st: st, old: st, vars: vars, pkg: ct.Pkg, what: ct.Name}
	for _, cl := range ct.Requires {
		r.assume(r.evalBool(cl.E, env))
	}
	if e.covers {
		r.cover("hypotheses", st)
	}
	for _, cl := range ct.Ensures {
		r.obligeClause("LEMMA", cl.Label, cl.E, env, st)
	}
	r.paths = 1
	return r
}
