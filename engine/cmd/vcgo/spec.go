package main

import (
	"fmt"
	"strings"
	"unicode"
)

// Specification expression language (Gobra-like surface syntax):
//
//	e ::= e ==> e | e <==> e | e || e | e && e | e cmp e (chains allowed: a <= b < c)
//	    | e + e | e - e | e * e | e / e | e % e | !e | -e
//	    | e.f | e[i] | f(args) | old(e) | ident | number | "string"
//	    | forall x, y [type] :: e | exists x :: e | (e)
//
// Parsed into a tiny AST and evaluated against a symbolic state.
type SExpr interface{}

type (
	SIdent struct{ Name string }
	SNum   struct{ Val string }
	SStrL  struct{ Val string }
	SUn    struct {
		Op string
		X  SExpr
	}
	SBin struct {
		Op   string
		X, Y SExpr
	}
	SCall struct {
		Fun  string
		Args []SExpr
	}
	SSel struct {
		X    SExpr
		Name string
	}
	SIdx struct {
		X, I SExpr
	}
	SSlice struct {
		X      SExpr
		Lo, Hi SExpr // may be nil
	}
	SQuant struct {
		Forall bool
		Vars   []string
		Types  []string
		Body   SExpr
	}
)

type tok struct {
	kind string // "id","num","str","op","eof"
	s    string
}

func lexSpec(src string) ([]tok, error) {
	var out []tok
	i := 0
	for i < len(src) {
		c := src[i]
		switch {
		case c == ' ' || c == '\t' || c == '\n':
			i++
		case unicode.IsLetter(rune(c)) || c == '_':
			j := i
			for j < len(src) && (unicode.IsLetter(rune(src[j])) || unicode.IsDigit(rune(src[j])) || src[j] == '_' || src[j] == '$') {
				j++
			}
			out = append(out, tok{"id", src[i:j]})
			i = j
		case unicode.IsDigit(rune(c)):
			j := i
			for j < len(src) && (unicode.IsDigit(rune(src[j])) || src[j] == 'x' || (src[j] >= 'a' && src[j] <= 'f') || (src[j] >= 'A' && src[j] <= 'F')) {
				j++
			}
			out = append(out, tok{"num", src[i:j]})
			i = j
		case c == '"':
			j := i + 1
			for j < len(src) && src[j] != '"' {
				j++
			}
			if j >= len(src) {
				return nil, fmt.Errorf("unterminated string in %q", src)
			}
			out = append(out, tok{"str", src[i+1 : j]})
			i = j + 1
		default:
			ops := []string{"<==>", "==>", "::", "==", "!=", "<=", ">=", "&&", "||", "<<", ">>", "+", "-", "*", "/", "%", "!", "<", ">", "(", ")", "[", "]", ".", ",", ":", "^", "&", "|"}
			matched := false
			for _, op := range ops {
				if strings.HasPrefix(src[i:], op) {
					out = append(out, tok{"op", op})
					i += len(op)
					matched = true
					break
				}
			}
			if !matched {
				return nil, fmt.Errorf("unexpected character %q in %q", c, src)
			}
		}
	}
	out = append(out, tok{"eof", ""})
	return out, nil
}

type specParser struct {
	toks []tok
	pos  int
	src  string
}

func parseSpec(src string) (e SExpr, err error) {
	toks, err := lexSpec(src)
	if err != nil {
		return nil, err
	}
	p := &specParser{toks: toks, src: src}
	defer func() {
		if r := recover(); r != nil {
			if s, ok := r.(specErr); ok {
				err = fmt.Errorf("%s in %q", string(s), src)
				return
			}
			panic(r)
		}
	}()
	e = p.parseImp()
	if p.peek().kind != "eof" {
		p.fail("trailing tokens at %q", p.peek().s)
	}
	return e, nil
}

type specErr string

func (p *specParser) fail(f string, a ...interface{}) { panic(specErr(fmt.Sprintf(f, a...))) }
func (p *specParser) peek() tok                        { return p.toks[p.pos] }
func (p *specParser) next() tok                        { t := p.toks[p.pos]; p.pos++; return t }
func (p *specParser) isOp(s string) bool               { t := p.peek(); return t.kind == "op" && t.s == s }
func (p *specParser) accept(s string) bool {
	if p.isOp(s) {
		p.pos++
		return true
	}
	return false
}
func (p *specParser) expect(s string) {
	if !p.accept(s) {
		p.fail("expected %q, got %q", s, p.peek().s)
	}
}

func (p *specParser) parseImp() SExpr {
	l := p.parseOr()
	if p.accept("==>") {
		r := p.parseImp()
		return SBin{"==>", l, r}
	}
	if p.accept("<==>") {
		r := p.parseImp()
		return SBin{"<==>", l, r}
	}
	return l
}

func (p *specParser) parseOr() SExpr {
	l := p.parseAnd()
	for p.accept("||") {
		r := p.parseAnd()
		l = SBin{"||", l, r}
	}
	return l
}

func (p *specParser) parseAnd() SExpr {
	l := p.parseCmp()
	for p.accept("&&") {
		r := p.parseCmp()
		l = SBin{"&&", l, r}
	}
	return l
}

func (p *specParser) parseCmp() SExpr {
	l := p.parseAdd()
	var res SExpr
	for {
		t := p.peek()
		if t.kind == "op" && (t.s == "==" || t.s == "!=" || t.s == "<" || t.s == "<=" || t.s == ">" || t.s == ">=") {
			p.pos++
			r := p.parseAdd()
			c := SBin{t.s, l, r}
			if res == nil {
				res = c
			} else {
				res = SBin{"&&", res, c}
			}
			l = r
			continue
		}
		break
	}
	if res != nil {
		return res
	}
	return l
}

func (p *specParser) parseAdd() SExpr {
	l := p.parseMul()
	for {
		t := p.peek()
		if t.kind == "op" && (t.s == "+" || t.s == "-" || t.s == "|" || t.s == "^") {
			p.pos++
			r := p.parseMul()
			l = SBin{t.s, l, r}
			continue
		}
		return l
	}
}

func (p *specParser) parseMul() SExpr {
	l := p.parseUnary()
	for {
		t := p.peek()
		if t.kind == "op" && (t.s == "*" || t.s == "/" || t.s == "%" || t.s == "<<" || t.s == ">>" || t.s == "&") {
			p.pos++
			r := p.parseUnary()
			l = SBin{t.s, l, r}
			continue
		}
		return l
	}
}

func (p *specParser) parseUnary() SExpr {
	if p.accept("!") {
		return SUn{"!", p.parseUnary()}
	}
	if p.accept("-") {
		return SUn{"-", p.parseUnary()}
	}
	return p.parsePostfix()
}

func (p *specParser) parsePostfix() SExpr {
	e := p.parsePrimary()
	for {
		switch {
		case p.accept("."):
			t := p.next()
			if t.kind != "id" {
				p.fail("expected field name after '.'")
			}
			e = SSel{e, t.s}
		case p.accept("["):
			if p.accept(":") {
				hi := p.parseImp()
				p.expect("]")
				e = SSlice{e, nil, hi}
				continue
			}
			i := p.parseImp()
			if p.accept(":") {
				var hi SExpr
				if !p.isOp("]") {
					hi = p.parseImp()
				}
				p.expect("]")
				e = SSlice{e, i, hi}
				continue
			}
			p.expect("]")
			e = SIdx{e, i}
		default:
			return e
		}
	}
}

func (p *specParser) parsePrimary() SExpr {
	t := p.next()
	switch t.kind {
	case "num":
		return SNum{t.s}
	case "str":
		return SStrL{t.s}
	case "id":
		if t.s == "forall" || t.s == "exists" {
			q := SQuant{Forall: t.s == "forall"}
			for {
				v := p.next()
				if v.kind != "id" {
					p.fail("expected bound variable")
				}
				typ := "int"
				if p.peek().kind == "id" {
					typ = p.next().s
				}
				q.Vars = append(q.Vars, v.s)
				q.Types = append(q.Types, typ)
				if !p.accept(",") {
					break
				}
			}
			p.expect("::")
			q.Body = p.parseImp()
			return q
		}
		if p.accept("(") {
			c := SCall{Fun: t.s}
			if !p.accept(")") {
				for {
					c.Args = append(c.Args, p.parseImp())
					if p.accept(")") {
						break
					}
					p.expect(",")
				}
			}
			return c
		}
		return SIdent{t.s}
	case "op":
		if t.s == "(" {
			e := p.parseImp()
			p.expect(")")
			return e
		}
	}
	p.fail("unexpected token %q", t.s)
	return nil
}
