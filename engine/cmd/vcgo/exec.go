package main

import (
	"fmt"
	"go/constant"
	"go/token"
	"go/types"
	"math/big"
	"strings"

	"golang.org/x/tools/go/ssa"
)

type contFn func(fr *Frame, st *State, results []Val)

const maxPaths = 6000

func (r *FnRun) val(fr *Frame, st *State, v ssa.Value) Val {
	switch x := v.(type) {
	case *ssa.Const:
		return r.constVal(x)
	case *ssa.Global:
		return r.globalPtr(st, x)
	case *ssa.Function:
		return ClosureVal{T: r.funcID(x), Fn: x}
	case *ssa.Builtin:
		unsup("builtin %s used as value", x.Name())
	}
	if val, ok := fr.vals[v]; ok {
		return val
	}
	unsup("value %s (%T) has no binding", v.Name(), v)
	return nil
}

func (r *FnRun) funcID(f *ssa.Function) Term {
	name := "fn_" + sanitize(f.String())
	if !r.decl[name] {
		r.declareGlobal(name, SInt)
		fmt.Fprintf(&r.prelude, "(assert (> %s 0))\n", name)
	}
	return Term{name, SInt}
}

func (r *FnRun) intLit(n *big.Int, t types.Type) Term {
	if r.bv {
		b, _ := isIntType(t)
		w, _ := intBits(b)
		return BVLit(n, w)
	}
	return BigLit(n)
}

func (r *FnRun) constVal(c *ssa.Const) Val {
	t := c.Type()
	if c.Value == nil {
		return r.zeroVal(t)
	}
	switch c.Value.Kind() {
	case constant.Bool:
		if constant.BoolVal(c.Value) {
			return TTrue
		}
		return TFalse
	case constant.String:
		return r.strLit(constant.StringVal(c.Value))
	case constant.Int:
		if _, ok := isIntType(t); ok {
			n, _ := new(big.Int).SetString(c.Value.ExactString(), 10)
			return r.intLit(n, t)
		}
		if b, ok := under(t).(*types.Basic); ok && b.Info()&types.IsFloat != 0 {
			return Term{c.Value.ExactString() + ".0", SReal}
		}
	case constant.Float:
		f, _ := constant.Float64Val(c.Value)
		if b, ok := under(t).(*types.Basic); ok && b.Info()&types.IsFloat != 0 {
			s := fmt.Sprintf("%f", f)
			if f < 0 {
				s = fmt.Sprintf("(- %f)", -f)
			}
			return Term{s, SReal}
		}
		if _, ok := isIntType(t); ok {
			n, _ := new(big.Int).SetString(c.Value.ExactString(), 10)
			if n != nil {
				return r.intLit(n, t)
			}
		}
	}
	unsup("constant %s of type %s", c.Value, t)
	return nil
}

// globalPtr returns a pointer to the cell that models a package-level variable.
// Globals are treated as immutable after initialisation.
func (r *FnRun) globalPtr(st *State, g *ssa.Global) PtrVal {
	key := g.String()
	c := r.e.globalCell(key, g)
	if _, ok := st.cells[c]; !ok {
		st.cells[c] = r.initialGlobal(st, g)
	}
	elem := g.Type().(*types.Pointer).Elem()
	return PtrVal{Kind: pkCell, Cell: c, Elem: elem}
}

func (r *FnRun) initialGlobal(st *State, g *ssa.Global) Val {
	elem := g.Type().(*types.Pointer).Elem()
	name := "glob_" + sanitize(g.String())
	if arr, ok := under(elem).(*types.Array); ok && isScalarType(arr.Elem()) {
		if vals := r.e.constArrayInit(g); vals != nil {
			srt := SArr(r.idxSort(), r.sortOf(arr.Elem()))
			if !r.decl[name] {
				r.declareGlobal(name, srt)
				for i, v := range vals {
					fmt.Fprintf(&r.prelude, "(assert (= (select %s %s) %s))\n", name, r.idxLit(int64(i)).S, r.intLit(v, arr.Elem()).S)
				}
			}
			return Term{name, srt}
		}
	}
	if !isScalarType(elem) {
		// composite global: unconstrained but fixed
		r.note("global %s: composite value treated as an arbitrary constant", g.String())
		save := r.cur
		_ = save
		return r.freshVal(st, elem, name)
	}
	srt := r.sortOf(elem)
	if !r.decl[name] {
		r.declareGlobal(name, srt)
		if types.Identical(elem, types.Universe.Lookup("error").Type()) {
			fmt.Fprintf(&r.prelude, "(assert (> %s 0))\n", name)
			if r.decl["top0"] {
				// created during package initialisation, before the function was entered
				fmt.Fprintf(&r.prelude, "(assert (<= %s top0))\n", name)
			}
			for _, o := range r.e.errGlobals(r) {
				if o != name {
					fmt.Fprintf(&r.prelude, "(assert (not (= %s %s)))\n", name, o)
				}
			}
			r.e.addErrGlobal(r, name)
		}
	}
	r.note("global %s treated as immutable after package initialisation", g.String())
	// dynamic types of well-known interface-typed library values
	if dyn, ok := map[string]string{"io.Discard": "io.discard"}[g.String()]; ok && !r.decl["dyn:"+name] {
		r.decl["dyn:"+name] = true
		r.declareFun("dtype", []Sort{SInt}, SInt)
		fmt.Fprintf(&r.prelude, "(assert (and (> %s 0) (= (dtype %s) %d)))\n", name, name, r.e.typeCodeByName(dyn, ""))
	}
	return r.wrapScalar(Term{name, srt}, elem)
}

func describePos(prog *ssa.Program, pos token.Pos) string {
	if !pos.IsValid() {
		return "?"
	}
	p := prog.Fset.Position(pos)
	return fmt.Sprintf("L%d", p.Line)
}

// execBlock runs block b having arrived from pred.
func (r *FnRun) execBlock(fr *Frame, st *State, b, pred *ssa.BasicBlock, k contFn) {
	r.cur = st
	if l := fr.loops.byHead[b]; l != nil {
		if fr.seen[b] > 0 {
			if pred == nil || !l.body[pred] {
				unsup("loop head re-entered from outside the loop")
			}
			r.checkInteriorStable(fr, st, l)
			r.checkInvariants(fr, st, l, "INV-PRES")
			r.endPath(st)
			return
		}
		r.checkInvariants(fr, st, l, "INV-INIT")
		keep := r.interiorCells(fr, st, l)
		r.havocLoop(fr, st, l)
		fr.seen[b] = 1
		if len(keep) > 0 {
			// explore the loop head twice: with the variables still holding the
			// interior pointers they hold on entry, and with arbitrary objects
			if fr.interior == nil {
				fr.interior = map[*ssa.BasicBlock]map[*Cell]Val{}
			}
			fr.interior[b] = keep
			st2, fr2 := st.clone(), fr.fork()
			for c, v := range keep {
				st2.cells[c] = v
			}
			r.push()
			r.cur = st2
			st2.path = append(st2.path, fmt.Sprintf("loop%d:first-object", l.ordinal))
			r.assumeInvariants(fr2, st2, l)
			r.execBlockBody(fr2, st2, b, pred, k)
			r.pop()
			r.push()
			r.cur = st
			st.path = append(st.path, fmt.Sprintf("loop%d:later-object", l.ordinal))
			r.assumeInvariants(fr, st, l)
			if r.e.covers {
				r.cover(fmt.Sprintf("loop%d-reachable", l.ordinal), st)
			}
			r.execBlockBody(fr, st, b, pred, k)
			r.pop()
			return
		}
		r.assumeInvariants(fr, st, l)
		if r.e.covers {
			r.cover(fmt.Sprintf("loop%d-reachable", l.ordinal), st)
		}
	}
	r.execBlockBody(fr, st, b, pred, k)
}

// execBlockBody: the phis and instructions of b (after any loop-head treatment).
func (r *FnRun) execBlockBody(fr *Frame, st *State, b, pred *ssa.BasicBlock, k contFn) {
	// phis are evaluated simultaneously
	var phiVals []Val
	var phis []*ssa.Phi
	for _, in := range b.Instrs {
		phi, ok := in.(*ssa.Phi)
		if !ok {
			break
		}
		idx := -1
		for i, p := range b.Preds {
			if p == pred {
				idx = i
			}
		}
		if idx < 0 {
			unsup("phi without matching predecessor")
		}
		phis = append(phis, phi)
		phiVals = append(phiVals, r.val(fr, st, phi.Edges[idx]))
	}
	for i, phi := range phis {
		fr.vals[phi] = phiVals[i]
	}
	r.execFrom(fr, st, b, len(phis), k)
}

func (r *FnRun) endPath(st *State) {
	r.paths++
	if r.paths > maxPaths {
		unsup("more than %d paths", maxPaths)
	}
}

func (r *FnRun) execFrom(fr *Frame, st *State, b *ssa.BasicBlock, idx int, k contFn) {
	r.cur = st
	for i := idx; i < len(b.Instrs); i++ {
		in := b.Instrs[i]
		switch x := in.(type) {
		case *ssa.DebugRef:
			continue
		case *ssa.If:
			c := r.val(fr, st, x.Cond).(Term)
			tb, fb := b.Succs[0], b.Succs[1]
			if c.S == "true" {
				r.execBlock(fr, st, tb, b, k)
				return
			}
			if c.S == "false" {
				r.execBlock(fr, st, fb, b, k)
				return
			}
			where := describePos(r.e.prog, x.Cond.Pos())
			st2, fr2 := st.clone(), fr.fork()
			r.push()
			r.cur = st
			st.path = append(st.path, where+":T")
			r.assume(c)
			r.execBlock(fr, st, tb, b, k)
			r.pop()
			r.push()
			r.cur = st2
			st2.path = append(st2.path, where+":F")
			r.assume(Not(c))
			r.execBlock(fr2, st2, fb, b, k)
			r.pop()
			return
		case *ssa.Jump:
			r.execBlock(fr, st, b.Succs[0], b, k)
			return
		case *ssa.Return:
			var res []Val
			for _, v := range x.Results {
				res = append(res, r.val(fr, st, v))
			}
			k(fr, st, res)
			return
		case *ssa.Panic:
			if fr.c == nil || fr.c.NoPanic {
				r.oblige("PANIC", r.e.describe(fr.fn, in), TFalse, st)
			}
			r.endPath(st)
			return
		case *ssa.RunDefers:
			ds := fr.defers
			fr.defers = nil
			r.runDefers(fr, st, ds, func(fr2 *Frame, st2 *State) {
				r.execFrom(fr2, st2, b, i+1, k)
			})
			return
		case *ssa.Defer:
			fr.defers = append(fr.defers, deferred{call: &x.Call, instr: x, fr: fr})
			// arguments are evaluated now
			r.snapshotArgs(fr, st, &x.Call)
			continue
		case *ssa.Go:
			r.execGo(fr, st, x)
			continue
		case *ssa.Call:
			r.execCall(fr, st, &x.Call, x, x, func(fr2 *Frame, st2 *State, res []Val) {
				r.cur = st2
				if x.Call.Signature().Results().Len() == 1 {
					fr2.vals[x] = res[0]
				} else if x.Call.Signature().Results().Len() > 1 {
					fr2.vals[x] = TupleVal(res)
				}
				r.execFrom(fr2, st2, b, i+1, k)
			})
			return
		default:
			r.execSimple(fr, st, in)
		}
	}
	unsup("block %d fell through", b.Index)
}

func (r *FnRun) runDefers(fr *Frame, st *State, ds []deferred, k func(*Frame, *State)) {
	if len(ds) == 0 {
		k(fr, st)
		return
	}
	d := ds[len(ds)-1]
	rest := ds[:len(ds)-1]
	r.execCall(fr, st, d.call, d.instr, nil, func(fr2 *Frame, st2 *State, _ []Val) {
		r.runDefers(fr2, st2, rest, k)
	})
}

func (r *FnRun) snapshotArgs(fr *Frame, st *State, c *ssa.CallCommon) {
	// SSA values are immutable, so the arguments of a deferred call are already
	// fixed; nothing to do.
}

// execSimple handles the straight-line instructions.
func (r *FnRun) execSimple(fr *Frame, st *State, in ssa.Instruction) {
	switch x := in.(type) {
	case *ssa.Alloc:
		elem := x.Type().(*types.Pointer).Elem()
		if at, ok := under(elem).(*types.Array); ok {
			base := r.fresh("arr_base", SInt)
			r.assume(Eq(base, Add(st.top, IntLit(1))))
			st.top = base
			r.zeroElems(st, base, at.Elem())
			fr.vals[x] = PtrVal{Kind: pkArr, Base: base, Elem: elem}
			return
		}
		if x.Heap {
			if _, ok := under(elem).(*types.Struct); ok && !isLocalOnlyStruct(elem) {
				fr.vals[x] = r.allocObject(st, elem, sanitize(typeKey(elem)))
				return
			}
			// becomes "escaped" (havocked by calls) only once a closure or
			// goroutine has actually captured it
			c := r.newCell(st, elem, x.Comment)
			fr.vals[x] = PtrVal{Kind: pkCell, Cell: c, Elem: elem}
			return
		}
		c := r.newCell(st, elem, x.Comment)
		fr.vals[x] = PtrVal{Kind: pkCell, Cell: c, Elem: elem}
	case *ssa.Store:
		av := r.val(fr, st, x.Addr)
		if ap, ok := av.(arrElemPtr); ok {
			where := r.e.describe(fr.fn, in)
			a := r.load(st, ap.p, where).(Term)
			r.store(st, ap.p, r.define("arr", Store(a, ap.idx, r.scalarOf(r.val(fr, st, x.Val)))), where)
			return
		}
		p, ok := av.(PtrVal)
		if !ok {
			unsup("store through non-pointer %T", av)
		}
		// storing a linear resource into memory that outlives this frame
		// (heap object, captured variable) hands it over
		if p.Kind != pkCell || p.Cell.freevar || st.hv["escaped:"+p.Cell.key()] {
			r.linearTransfer(st, r.val(fr, st, x.Val), "stored into shared memory")
		}
		r.store(st, p, r.val(fr, st, x.Val), r.e.describe(fr.fn, in))
	case *ssa.UnOp:
		fr.vals[x] = r.unop(fr, st, x)
	case *ssa.BinOp:
		fr.vals[x] = r.binop(fr, st, x.Op, r.val(fr, st, x.X), r.val(fr, st, x.Y), x.X.Type(), x.Y.Type(), x.Type(), r.e.describe(fr.fn, in))
	case *ssa.FieldAddr:
		p, ok := r.val(fr, st, x.X).(PtrVal)
		if !ok {
			unsup("FieldAddr on non-pointer")
		}
		stt := under(x.X.Type().(*types.Pointer).Elem()).(*types.Struct)
		f := stt.Field(x.Field)
		np := p
		np.Elem = f.Type()
		if p.Kind == pkCell {
			np.CPath = append(append([]int(nil), p.CPath...), x.Field)
		} else {
			if p.Kind == pkHeap {
				r.oblige("NIL", r.e.describe(fr.fn, in), Not(Eq(p.Ref, IntLit(0))), st)
			}
			np.Path = joinPath(p.Path, f.Name())
		}
		fr.vals[x] = np
	case *ssa.Field:
		sv, ok := r.val(fr, st, x.X).(*StructVal)
		if !ok {
			unsup("Field on non-struct value")
		}
		fr.vals[x] = sv.F[x.Field]
	case *ssa.IndexAddr:
		fr.vals[x] = r.indexAddr(fr, st, x)
	case *ssa.Index:
		fr.vals[x] = r.indexVal(fr, st, x)
	case *ssa.Slice:
		fr.vals[x] = r.sliceOp(fr, st, x)
	case *ssa.MakeSlice:
		n := r.val(fr, st, x.Len).(Term)
		c := r.val(fr, st, x.Cap).(Term)
		n, c = r.toIdx(n, x.Len.Type()), r.toIdx(c, x.Cap.Type())
		r.oblige("BOUNDS", r.e.describe(fr.fn, in), And(r.idxLe(r.idxLit(0), n), r.idxLe(n, c)), st)
		base := r.fresh("mk_base", SInt)
		r.assume(Eq(base, Add(st.top, IntLit(1))))
		st.top = base
		elem := under(x.Type()).(*types.Slice).Elem()
		r.zeroElems(st, base, elem)
		fr.vals[x] = SliceVal{Base: base, Off: r.idxLit(0), Len: n, Cap: c, Elem: elem}
	case *ssa.MakeMap:
		m := r.fresh("map", SInt)
		r.assume(Eq(m, Add(st.top, IntLit(1))))
		st.top = m
		r.mapInit(st, m, x.Type())
		fr.vals[x] = m
	case *ssa.MakeChan:
		m := r.fresh("chan", SInt)
		r.assume(Eq(m, Add(st.top, IntLit(1))))
		st.top = m
		// a new channel is open
		if g := r.e.cs.Ghosts["closed"]; g != nil {
			r.assume(Not(Select(r.ghostTerm(st, g), m)))
		}
		fr.vals[x] = m
	case *ssa.MakeClosure:
		var bind []Val
		for i, b := range x.Bindings {
			bv := r.val(fr, st, b)
			if p, ok := bv.(PtrVal); ok && p.Kind == pkCell {
				// a captured variable can change behind our back only if the
				// closure does more with it than read it
				if cfn, ok := x.Fn.(*ssa.Function); !ok || i >= len(cfn.FreeVars) || !freeVarReadOnly(cfn.FreeVars[i], 0) {
					st.hv["escaped:"+p.Cell.key()] = true
				}
			}
			bind = append(bind, bv)
		}
		id := r.fresh("closure", SInt)
		r.assume(Eq(id, Add(st.top, IntLit(1))))
		st.top = id
		fr.vals[x] = ClosureVal{T: id, Fn: x.Fn.(*ssa.Function), Bind: bind}
		r.linearCaptured(fr, st, bind)
	case *ssa.MakeInterface:
		fr.vals[x] = r.makeInterface(st, r.val(fr, st, x.X), x.X.Type())
	case *ssa.ChangeInterface:
		fr.vals[x] = r.val(fr, st, x.X)
	case *ssa.ChangeType:
		v := r.val(fr, st, x.X)
		if sv, ok := v.(*StructVal); ok {
			v = &StructVal{T: x.Type(), F: sv.F}
		}
		fr.vals[x] = v
	case *ssa.Convert:
		fr.vals[x] = r.convert(fr, st, x)
	case *ssa.TypeAssert:
		fr.vals[x] = r.typeAssert(fr, st, x)
	case *ssa.Extract:
		tv, ok := r.val(fr, st, x.Tuple).(TupleVal)
		if !ok {
			unsup("Extract from non-tuple")
		}
		fr.vals[x] = tv[x.Index]
	case *ssa.Lookup:
		fr.vals[x] = r.lookup(fr, st, x)
	case *ssa.MapUpdate:
		r.mapUpdate(fr, st, x)
	case *ssa.Range:
		fr.vals[x] = r.val(fr, st, x.X)
		r.rangeInit(fr, st, x)
	case *ssa.Next:
		fr.vals[x] = r.next(fr, st, x)
	case *ssa.Select:
		fr.vals[x] = r.selectOp(fr, st, x)
	case *ssa.Send:
		r.note("channel send treated as non-blocking no-op")
		r.countChanOp(st, "sends", r.val(fr, st, x.Chan), TTrue)
	case *ssa.SliceToArrayPointer, *ssa.MultiConvert:
		unsup("instruction %T", in)
	default:
		unsup("instruction %T", in)
	}
}

func isLocalOnlyStruct(t types.Type) bool { return false }

func (r *FnRun) idxLe(a, b Term) Term {
	if r.bv {
		return App("bvsle", SBool, a, b)
	}
	return Le(a, b)
}

func (r *FnRun) idxLt(a, b Term) Term {
	if r.bv {
		return App("bvslt", SBool, a, b)
	}
	return Lt(a, b)
}

func (r *FnRun) idxAdd(a, b Term) Term {
	if r.bv {
		return App("bvadd", a.Sort, a, b)
	}
	return Add(a, b)
}

func (r *FnRun) idxSub(a, b Term) Term {
	if r.bv {
		return App("bvsub", a.Sort, a, b)
	}
	return Sub(a, b)
}

// toIdx converts an integer term of Go type t to the index sort.
func (r *FnRun) toIdx(t Term, gt types.Type) Term {
	if !r.bv {
		return t
	}
	w := t.Sort.BVWidth()
	if w == 64 {
		return t
	}
	if isUnsigned(gt) {
		return App(fmt.Sprintf("(_ zero_extend %d)", 64-w), SBV(64), t)
	}
	return App(fmt.Sprintf("(_ sign_extend %d)", 64-w), SBV(64), t)
}

func (r *FnRun) zeroElems(st *State, base Term, elem types.Type) {
	var ls []leaf
	r.leafPaths(elem, "", &ls)
	for _, l := range ls {
		key := "[]" + typeKey(elem) + "|" + l.path
		arr := r.elemArr(st, key, l.sort)
		var z Term
		if l.typ != nil {
			z = r.zeroTerm(l.typ)
		} else if l.sort == SInt {
			z = IntLit(0)
		} else {
			z = BVLit(big.NewInt(0), 64)
		}
		na := r.fresh("m_"+shortKey(key), arr.Sort)
		r.assume(Eq(na, Store(arr, base, Term{fmt.Sprintf("((as const %s) %s)", SArr(r.idxSort(), l.sort), z.S), SArr(r.idxSort(), l.sort)})))
		st.heap[key] = na
	}
}

func (r *FnRun) indexAddr(fr *Frame, st *State, x *ssa.IndexAddr) Val {
	idx := r.toIdx(r.val(fr, st, x.Index).(Term), x.Index.Type())
	where := r.e.describe(fr.fn, x)
	switch xt := under(x.X.Type()).(type) {
	case *types.Slice:
		s := r.val(fr, st, x.X).(SliceVal)
		if strings.HasPrefix(idx.S, "(") && !r.bv {
			// name compound index terms so that quantified facts about
			// elements can be instantiated by matching
			c := r.fresh("ix", idx.Sort)
			r.assume(Eq(c, idx))
			idx = c
		}
		r.oblige("BOUNDS", where, And(r.idxLe(r.idxLit(0), idx), r.idxLt(idx, s.Len)), st)
		return PtrVal{Kind: pkElem, Base: s.Base, Idx: r.pos(s.Off, idx), Root: "[]" + typeKey(xt.Elem()), Elem: xt.Elem()}
	case *types.Pointer:
		arr := under(xt.Elem()).(*types.Array)
		p := r.val(fr, st, x.X).(PtrVal)
		r.oblige("BOUNDS", where, And(r.idxLe(r.idxLit(0), idx), r.idxLt(idx, r.idxLit(arr.Len()))), st)
		if p.Kind == pkArr {
			return PtrVal{Kind: pkElem, Base: p.Base, Idx: idx, Root: "[]" + typeKey(arr.Elem()), Elem: arr.Elem()}
		}
		// pointer to an array element: represent as array-cell access
		return arrElemPtr{p: p, idx: idx, elem: arr.Elem()}
	}
	unsup("IndexAddr on %s", x.X.Type())
	return nil
}

// arrElemPtr is a pointer to one element of a fixed-size array stored in a
// cell, heap field or slice element.
type arrElemPtr struct {
	p    PtrVal
	idx  Term
	elem types.Type
}

func (r *FnRun) indexVal(fr *Frame, st *State, x *ssa.Index) Val {
	idx := r.toIdx(r.val(fr, st, x.Index).(Term), x.Index.Type())
	where := r.e.describe(fr.fn, x)
	switch xt := under(x.X.Type()).(type) {
	case *types.Array:
		a := r.val(fr, st, x.X).(Term)
		r.oblige("BOUNDS", where, And(r.idxLe(r.idxLit(0), idx), r.idxLt(idx, r.idxLit(xt.Len()))), st)
		return r.wrapScalar(Select(a, idx), xt.Elem())
	case *types.Basic: // string
		s := r.val(fr, st, x.X).(Term)
		r.oblige("BOUNDS", where, And(r.idxLe(r.idxLit(0), idx), r.idxLt(idx, r.strLen(s))), st)
		r.declareFun("sat", []Sort{SStr, SInt}, SInt)
		t := App("sat", SInt, s, idx)
		r.assume(And(Le(IntLit(0), t), Le(t, IntLit(255))))
		return t
	}
	unsup("Index on %s", x.X.Type())
	return nil
}

func (r *FnRun) strLen(s Term) Term {
	r.declareFun("slen", []Sort{SStr}, SInt)
	t := App("slen", SInt, s)
	return t
}

func (r *FnRun) sliceOp(fr *Frame, st *State, x *ssa.Slice) Val {
	where := r.e.describe(fr.fn, x)
	get := func(v ssa.Value, def Term) Term {
		if v == nil {
			return def
		}
		return r.toIdx(r.val(fr, st, v).(Term), v.Type())
	}
	switch xt := under(x.X.Type()).(type) {
	case *types.Slice:
		s := r.val(fr, st, x.X).(SliceVal)
		lo := get(x.Low, r.idxLit(0))
		hi := get(x.High, s.Len)
		mx := get(x.Max, s.Cap)
		r.oblige("BOUNDS", where, And(r.idxLe(r.idxLit(0), lo), r.idxLe(lo, hi), r.idxLe(hi, mx), r.idxLe(mx, s.Cap)), st)
		return SliceVal{Base: s.Base, Off: r.shiftedOff(s.Off, lo), Len: r.idxSub(hi, lo), Cap: r.idxSub(mx, lo), Elem: s.Elem}
	case *types.Basic: // string
		s := r.val(fr, st, x.X).(Term)
		n := r.strLen(s)
		lo := get(x.Low, IntLit(0))
		hi := get(x.High, n)
		r.oblige("BOUNDS", where, And(Le(IntLit(0), lo), Le(lo, hi), Le(hi, n)), st)
		r.declareFun("ssub", []Sort{SStr, SInt, SInt}, SStr)
		res := App("ssub", SStr, s, lo, hi)
		r.assume(Eq(r.strLen(res), Sub(hi, lo)))
		if x.Low == nil && x.High == nil {
			return s
		}
		return res
	case *types.Pointer: // pointer to array
		arr, ok := under(xt.Elem()).(*types.Array)
		if !ok {
			break
		}
		p := r.val(fr, st, x.X).(PtrVal)
		n := r.idxLit(arr.Len())
		lo := get(x.Low, r.idxLit(0))
		hi := get(x.High, n)
		r.oblige("BOUNDS", where, And(r.idxLe(r.idxLit(0), lo), r.idxLe(lo, hi), r.idxLe(hi, n)), st)
		if p.Kind == pkArr {
			return SliceVal{Base: p.Base, Off: r.shiftedOff(r.idxLit(0), lo), Len: r.idxSub(hi, lo), Cap: r.idxSub(n, lo), Elem: arr.Elem()}
		}
		// materialise the array as a fresh backing store holding a copy
		a := r.load(st, p, where).(Term)
		base := r.fresh("arr_base", SInt)
		r.assume(Eq(base, Add(st.top, IntLit(1))))
		st.top = base
		key := "[]" + typeKey(arr.Elem()) + "|"
		m := r.elemArr(st, key, r.sortOf(arr.Elem()))
		nm := r.fresh("m_"+shortKey(key), m.Sort)
		r.assume(Eq(nm, Store(m, base, a)))
		st.heap[key] = nm
		r.note("slicing a fixed-size array yields a copy (writes through the slice are not reflected in the array)")
		return SliceVal{Base: base, Off: lo, Len: r.idxSub(hi, lo), Cap: r.idxSub(n, lo), Elem: arr.Elem()}
	}
	unsup("Slice on %s", x.X.Type())
	return nil
}

func (r *FnRun) unop(fr *Frame, st *State, x *ssa.UnOp) Val {
	v := r.val(fr, st, x.X)
	switch x.Op {
	case token.MUL:
		switch p := v.(type) {
		case PtrVal:
			return r.load(st, p, r.e.describe(fr.fn, x))
		case arrElemPtr:
			a := r.load(st, p.p, r.e.describe(fr.fn, x)).(Term)
			t := Select(a, p.idx)
			r.assumeRange(st, t, p.elem)
			return r.wrapScalar(t, p.elem)
		}
		unsup("deref of %T", v)
	case token.NOT:
		return Not(v.(Term))
	case token.SUB:
		t := v.(Term)
		if r.bv {
			return App("bvneg", t.Sort, t)
		}
		if t.Sort == SReal {
			return App("-", SReal, t)
		}
		res := App("-", SInt, t)
		if b, ok := isIntType(x.Type()); ok && !r.wraps {
			lo, hi, _ := intRange(b)
			r.oblige("OVF", r.e.describe(fr.fn, x), And(Le(BigLit(lo), res), Le(res, BigLit(hi))), st)
		}
		return res
	case token.XOR:
		t := v.(Term)
		if r.bv {
			return App("bvnot", t.Sort, t)
		}
		if isUnsigned(x.Type()) {
			b, _ := isIntType(x.Type())
			_, hi, _ := intRange(b)
			return Sub(BigLit(hi), t)
		}
		return Sub(App("-", SInt, t), IntLit(1))
	case token.ARROW:
		// channel receive: any value
		r.note("channel receive yields an arbitrary value")
		res := r.freshVal(st, x.Type(), "recv")
		// "recvhavoc T.ch f...": receiving from field ch of an object
		// synchronises with the goroutine owning its fields f
		if u, ok := x.X.(*ssa.UnOp); ok && u.Op == token.MUL && r.e.cs.RecvHavoc != nil {
			if fa, ok := u.X.(*ssa.FieldAddr); ok {
				if pt, ok := fa.X.Type().Underlying().(*types.Pointer); ok {
					if stt, ok := under(pt.Elem()).(*types.Struct); ok {
						if n, ok := types.Unalias(pt.Elem()).(*types.Named); ok && n.Obj().Pkg() != nil {
							key := n.Obj().Pkg().Path() + "::" + n.Obj().Name() + "." + stt.Field(fa.Field).Name()
							if fields := r.e.cs.RecvHavoc[key]; len(fields) > 0 {
								if obj, ok := r.val(fr, st, fa.X).(PtrVal); ok && obj.Kind == pkHeap {
									for i := 0; i < stt.NumFields(); i++ {
										for _, fn := range fields {
											if stt.Field(i).Name() == fn {
												p := obj
												p.Path = joinPath(obj.Path, fn)
												p.Elem = stt.Field(i).Type()
												r.havocArgs(st, []Val{p})
											}
										}
									}
								}
							}
						}
					}
				}
			}
		}
		// a contract file may count receive operations per channel
		// ("ghost recvs(ref) int"): waiting for a channel is then observable
		if g := r.e.cs.Ghosts["recvs"]; g != nil && g.Arity == 1 {
			ch := termOf(v)
			arr := r.ghostTerm(st, g)
			na := r.fresh("G_recvs", arr.Sort)
			r.assume(Eq(na, Store(arr, ch, Add(Select(arr, ch), IntLit(1)))))
			st.ghost["recvs"] = na
		}
		return res
	}
	unsup("unary operator %s", x.Op)
	return nil
}

func (r *FnRun) makeInterface(st *State, v Val, t types.Type) Val {
	if iv, ok := v.(IfaceVal); ok {
		return iv
	}
	code := r.e.typeCode(t)
	r.declareFun("dtype", []Sort{SInt}, SInt)
	var id Term
	if p, ok := v.(PtrVal); ok && p.Kind == pkHeap && p.Path == "" {
		box := fmt.Sprintf("ibox_%d", code)
		unbox := fmt.Sprintf("iunbox_%d", code)
		r.declareFun(box, []Sort{SInt}, SInt)
		r.declareFun(unbox, []Sort{SInt}, SInt)
		id = r.define("iface", App(box, SInt, p.Ref))
		r.assume(And(Gt(id, IntLit(0)), Eq(App(unbox, SInt, id), p.Ref), Eq(App("dtype", SInt, id), IntLit(int64(code)))))
		if r.decl["top0"] {
			// the identity of an interface holding a pointer is as old as the
			// object: boxing something allocated during this call never yields
			// an interface value that existed at entry, and vice versa
			t0 := Term{"top0", SInt}
			r.assume(Eq(Gt(p.Ref, t0), Gt(id, t0)))
		}
	} else if tm, ok := v.(Term); ok && tm.Sort == SInt && !r.bv {
		box := fmt.Sprintf("ibox_%d", code)
		unbox := fmt.Sprintf("iunbox_%d", code)
		r.declareFun(box, []Sort{SInt}, SInt)
		r.declareFun(unbox, []Sort{SInt}, SInt)
		id = r.define("iface", App(box, SInt, tm))
		r.assume(And(Gt(id, IntLit(0)), Eq(App(unbox, SInt, id), tm), Eq(App("dtype", SInt, id), IntLit(int64(code)))))
	} else {
		// a composite value put into an interface: a new box (identity model;
		// Go's == on such interfaces compares contents, the model does not)
		id = r.fresh("iface", SInt)
		r.assume(And(Eq(id, Add(st.top, IntLit(1))), Eq(App("dtype", SInt, id), IntLit(int64(code)))))
		st.top = id
	}
	return IfaceVal{T: id, Dyn: t, Inner: v}
}

func (r *FnRun) typeAssert(fr *Frame, st *State, x *ssa.TypeAssert) Val {
	v, ok := r.val(fr, st, x.X).(IfaceVal)
	if !ok {
		unsup("TypeAssert on non-interface value")
	}
	where := r.e.describe(fr.fn, x)
	mk := func(val Val, okT Term) Val {
		if x.CommaOk {
			return TupleVal{val, okT}
		}
		r.oblige("TYPEASSERT", where, okT, st)
		return val
	}
	if _, isIface := under(x.AssertedType).(*types.Interface); isIface {
		if v.Dyn != nil {
			if types.Implements(v.Dyn, under(x.AssertedType).(*types.Interface)) {
				return mk(v, Not(Eq(v.T, IntLit(0))))
			}
			return mk(IfaceVal{T: IntLit(0)}, TFalse)
		}
		okT := r.fresh("assert_ok", SBool)
		r.assume(Imp(okT, Not(Eq(v.T, IntLit(0)))))
		return mk(IfaceVal{T: v.T}, okT)
	}
	if v.Dyn != nil {
		if types.Identical(v.Dyn, x.AssertedType) {
			return mk(v.Inner, TTrue)
		}
		return mk(r.zeroVal(x.AssertedType), TFalse)
	}
	code := r.e.typeCode(x.AssertedType)
	r.declareFun("dtype", []Sort{SInt}, SInt)
	okT := And(Not(Eq(v.T, IntLit(0))), Eq(App("dtype", SInt, v.T), IntLit(int64(code))))
	var res Val
	switch u := under(x.AssertedType).(type) {
	case *types.Pointer:
		unbox := fmt.Sprintf("iunbox_%d", code)
		r.declareFun(unbox, []Sort{SInt}, SInt)
		ref := r.define("unboxed", App(unbox, SInt, v.T))
		r.assume(Imp(okT, And(Gt(ref, IntLit(0)), Le(ref, st.top))))
		res = PtrVal{Kind: pkHeap, Ref: ref, Root: r.rootKey(u.Elem()), Elem: u.Elem()}
	default:
		res = r.freshVal(st, x.AssertedType, "asserted")
	}
	return mk(res, okT)
}

func (r *FnRun) convert(fr *Frame, st *State, x *ssa.Convert) Val {
	v := r.val(fr, st, x.X)
	from, to := x.X.Type(), x.Type()
	where := r.e.describe(fr.fn, x)
	fb, fok := isIntType(from)
	tb, tok := isIntType(to)
	if fok && tok {
		t := v.(Term)
		if r.bv {
			fw, _ := intBits(fb)
			tw, _ := intBits(tb)
			switch {
			case fw == tw:
				return t
			case fw > tw:
				return App(fmt.Sprintf("(_ extract %d 0)", tw-1), SBV(tw), t)
			case isUnsigned(from):
				return App(fmt.Sprintf("(_ zero_extend %d)", tw-fw), SBV(tw), t)
			default:
				return App(fmt.Sprintf("(_ sign_extend %d)", tw-fw), SBV(tw), t)
			}
		}
		flo, fhi, _ := intRange(fb)
		tlo, thi, _ := intRange(tb)
		if flo.Cmp(tlo) >= 0 && fhi.Cmp(thi) <= 0 {
			return t
		}
		if r.wraps {
			w, _ := intBits(tb)
			m := App("mod", SInt, t, BigLit(pow2(w)))
			if !isUnsigned(to) {
				m = Ite(Ge(m, BigLit(pow2(w-1))), Sub(m, BigLit(pow2(w))), m)
			}
			return r.define("conv", m)
		}
		r.oblige("CONV", where, And(Le(BigLit(tlo), t), Le(t, BigLit(thi))), st)
		return t
	}
	fromB, _ := under(from).(*types.Basic)
	toB, _ := under(to).(*types.Basic)
	switch {
	case fromB != nil && fromB.Info()&types.IsString != 0:
		if sl, ok := under(to).(*types.Slice); ok {
			// []byte(s)
			s := v.(Term)
			base := r.fresh("bytes_base", SInt)
			r.assume(Eq(base, Add(st.top, IntLit(1))))
			st.top = base
			n := r.strLen(s)
			r.assume(Ge(n, IntLit(0)))
			r.note("[]byte(string): contents of the new slice are unconstrained")
			return SliceVal{Base: base, Off: r.idxLit(0), Len: n, Cap: n, Elem: sl.Elem()}
		}
	case toB != nil && toB.Info()&types.IsString != 0:
		if _, ok := v.(SliceVal); ok {
			s := v.(SliceVal)
			res := r.fresh("str", SStr)
			r.assume(Eq(r.strLen(res), s.Len))
			r.note("string([]byte): contents of the new string are unconstrained")
			return res
		}
		if fok {
			res := r.fresh("str", SStr)
			r.assume(And(Le(IntLit(1), r.strLen(res)), Le(r.strLen(res), IntLit(4))))
			return res
		}
	case fok && toB != nil && toB.Info()&types.IsFloat != 0:
		if r.bv {
			return r.fresh("float", SReal)
		}
		return App("to_real", SReal, v.(Term))
	case fromB != nil && fromB.Info()&types.IsFloat != 0 && tok:
		res := r.freshVal(st, to, "ftoi")
		return res
	case fromB != nil && toB != nil && fromB.Info()&types.IsFloat != 0 && toB.Info()&types.IsFloat != 0:
		return v
	}
	if types.Identical(under(from), under(to)) {
		return v
	}
	unsup("conversion %s -> %s", from, to)
	return nil
}
