package main

import (
	"golang.org/x/tools/go/ssa"
)

// isInterior: a pointer to a struct held by value inside a heap object
// (&x.f). Such a pointer has no integer identity of its own in the memory
// model; it is the pair (object, field path).
func isInterior(p PtrVal) bool {
	return p.Kind == pkHeap && p.Path != ""
}

// interiorCells lists the local variables assigned in loop l that hold an
// interior pointer right now. A loop cut forgets the variables the loop
// assigns and replaces them by arbitrary values of their type — for a pointer
// that means "some separately allocated object", which does not cover the
// interior pointer the variable holds on entry (n := &it.root; for { … n =
// next }). The loop head is therefore explored twice: once with the variable
// still holding the interior pointer, once with an arbitrary object.
func (r *FnRun) interiorCells(fr *Frame, st *State, l *loopT) map[*Cell]Val {
	ms := r.e.loopMods(fr.fn, l, r)
	var out map[*Cell]Val
	for v, val := range fr.vals {
		a, ok := v.(*ssa.Alloc)
		if !ok || !ms.allocs[a] {
			continue
		}
		p, ok := val.(PtrVal)
		if !ok || p.Kind != pkCell {
			continue
		}
		if cur, ok := st.cells[p.Cell].(PtrVal); ok && isInterior(cur) {
			if out == nil {
				out = map[*Cell]Val{}
			}
			out[p.Cell] = cur
		}
	}
	return out
}

// checkInteriorStable: at the back edge, a variable that holds an interior
// pointer must hold the one it held when the loop was entered (only that case
// is covered by the two explorations of the loop head).
func (r *FnRun) checkInteriorStable(fr *Frame, st *State, l *loopT) {
	entry := fr.interior[l.head]
	for c, v := range r.interiorCells(fr, st, l) {
		cur := v.(PtrVal)
		if e, ok := entry[c].(PtrVal); ok && e.Root == cur.Root && e.Path == cur.Path && e.Ref.S == cur.Ref.S {
			continue
		}
		unsup("loop assigns an interior pointer to %s", c.name)
	}
}
