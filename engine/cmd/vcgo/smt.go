package main

import (
	"fmt"
	"math/big"
	"strings"
)

// Sort is an SMT-LIB sort, written out.
type Sort string

const (
	SInt  Sort = "Int"
	SBool Sort = "Bool"
	SStr  Sort = "Str"
	SReal Sort = "Real"
)

func SBV(n int) Sort      { return Sort(fmt.Sprintf("(_ BitVec %d)", n)) }
func SArr(a, b Sort) Sort { return Sort(fmt.Sprintf("(Array %s %s)", a, b)) }

func (s Sort) IsBV() bool { return strings.HasPrefix(string(s), "(_ BitVec") }
func (s Sort) BVWidth() int {
	var n int
	fmt.Sscanf(string(s), "(_ BitVec %d)", &n)
	return n
}
func (s Sort) IsArr() bool { return strings.HasPrefix(string(s), "(Array") }

// ArrElem returns the element sort of an array sort whose index sort is Int.
func (s Sort) ArrElem() Sort {
	str := string(s)
	if !strings.HasPrefix(str, "(Array ") {
		panic("ArrElem: " + str)
	}
	rest := str[len("(Array ") : len(str)-1]
	// skip the index sort (an atom or a parenthesised sort)
	depth := 0
	for i, c := range rest {
		switch c {
		case '(':
			depth++
		case ')':
			depth--
		case ' ':
			if depth == 0 {
				return Sort(rest[i+1:])
			}
		}
	}
	panic("ArrElem: " + str)
}

// Term is an SMT-LIB term with its sort.
type Term struct {
	S    string
	Sort Sort
}

var (
	TTrue  = Term{"true", SBool}
	TFalse = Term{"false", SBool}
)

func IntLit(n int64) Term {
	if n < 0 {
		return Term{fmt.Sprintf("(- %d)", -n), SInt}
	}
	return Term{fmt.Sprintf("%d", n), SInt}
}

func BigLit(n *big.Int) Term {
	if n.Sign() < 0 {
		return Term{fmt.Sprintf("(- %s)", new(big.Int).Neg(n).String()), SInt}
	}
	return Term{n.String(), SInt}
}

func BVLit(n *big.Int, w int) Term {
	m := new(big.Int).Set(n)
	if m.Sign() < 0 {
		m.Add(m, new(big.Int).Lsh(big.NewInt(1), uint(w)))
	}
	return Term{fmt.Sprintf("(_ bv%s %d)", m.String(), w), SBV(w)}
}

func App(op string, sort Sort, args ...Term) Term {
	var sb strings.Builder
	sb.WriteByte('(')
	sb.WriteString(op)
	for _, a := range args {
		sb.WriteByte(' ')
		sb.WriteString(a.S)
	}
	sb.WriteByte(')')
	return Term{sb.String(), sort}
}

func Not(a Term) Term {
	switch a.S {
	case "true":
		return TFalse
	case "false":
		return TTrue
	}
	if strings.HasPrefix(a.S, "(not ") {
		return Term{a.S[5 : len(a.S)-1], SBool}
	}
	return App("not", SBool, a)
}

func And(ts ...Term) Term {
	var out []Term
	for _, t := range ts {
		if t.S == "true" {
			continue
		}
		if t.S == "false" {
			return TFalse
		}
		out = append(out, t)
	}
	switch len(out) {
	case 0:
		return TTrue
	case 1:
		return out[0]
	}
	return App("and", SBool, out...)
}

func Or(ts ...Term) Term {
	var out []Term
	for _, t := range ts {
		if t.S == "false" {
			continue
		}
		if t.S == "true" {
			return TTrue
		}
		out = append(out, t)
	}
	switch len(out) {
	case 0:
		return TFalse
	case 1:
		return out[0]
	}
	return App("or", SBool, out...)
}

func Imp(a, b Term) Term {
	if a.S == "true" {
		return b
	}
	if a.S == "false" || b.S == "true" {
		return TTrue
	}
	return App("=>", SBool, a, b)
}

func Eq(a, b Term) Term {
	if a.S == b.S {
		return TTrue
	}
	return App("=", SBool, a, b)
}

func Ite(c, a, b Term) Term {
	if c.S == "true" {
		return a
	}
	if c.S == "false" {
		return b
	}
	if a.S == b.S {
		return a
	}
	return App("ite", a.Sort, c, a, b)
}

func Select(arr, idx Term) Term { return App("select", arr.Sort.ArrElem(), arr, idx) }
func Store(arr, idx, v Term) Term {
	return App("store", arr.Sort, arr, idx, v)
}

func Add(a, b Term) Term {
	if a.Sort == SInt {
		if b.S == "0" {
			return a
		}
		if a.S == "0" {
			return b
		}
	}
	return App("+", a.Sort, a, b)
}
func Sub(a, b Term) Term {
	if a.Sort == SInt && b.S == "0" {
		return a
	}
	return App("-", a.Sort, a, b)
}
func Le(a, b Term) Term { return App("<=", SBool, a, b) }
func Lt(a, b Term) Term { return App("<", SBool, a, b) }
func Ge(a, b Term) Term { return App(">=", SBool, a, b) }
func Gt(a, b Term) Term { return App(">", SBool, a, b) }

// pow2 returns 2^n as a big integer.
func pow2(n int) *big.Int { return new(big.Int).Lsh(big.NewInt(1), uint(n)) }
