package main

import (
	"encoding/json"
	"fmt"
	"go/types"
	"math/big"
	"os"
	"os/exec"
	"path/filepath"
	"regexp"
	"strings"
	"time"
)

// tryReplay turns a solver model into an execution of the real code. It covers
// the functions whose inputs the model determines completely without any heap:
// plain functions (no receiver) whose parameters are integers or booleans and
// whose results are integers, booleans or an error, and POST obligations whose
// clause uses only arithmetic, comparisons, connectives, old(), code(), ite(),
// min(), max() and pure definitions over them. The model's parameter values
// are fed to the function in a test that is injected into the package through
// a build overlay (nothing is written into the repository); the postcondition
// is re-evaluated in Go on what the real code returned. Returns (reproduced,
// transcript).
func tryReplay(e *Engine, o *Obligation, model, repo, verif string) (bool, string) {
	r := o.run
	if r == nil || r.fn == nil || r.c == nil || o.Kind != "POST" || o.inst == nil {
		return false, ""
	}
	fn := r.fn
	sig := fn.Signature
	if sig.Recv() != nil || fn.Parent() != nil || fn.Pkg == nil {
		return false, ""
	}
	// the clause
	i := strings.Index(o.Name, ":POST:")
	if i < 0 {
		return false, ""
	}
	label := o.Name[i+len(":POST:"):]
	if j := strings.Index(label, "/"); j >= 0 {
		label = label[:j]
	}
	var clause *Clause
	for k := range r.c.Ensures {
		if r.c.Ensures[k].Label == label {
			clause = &r.c.Ensures[k]
		}
	}
	if clause == nil {
		return false, ""
	}
	// parameters
	tr := &goTranslator{e: e, vars: map[string]string{}, errs: map[string]bool{}}
	var decls, args, shown []string
	for k := 0; k < sig.Params().Len(); k++ {
		p := sig.Params().At(k)
		b, ok := under(p.Type()).(*types.Basic)
		if !ok || b.Info()&(types.IsInteger|types.IsBoolean) == 0 {
			return false, ""
		}
		val, ok := modelValue(model, "p_"+sanitize(p.Name())+"_")
		if !ok {
			return false, "replay: the model has no value for parameter " + p.Name()
		}
		ts := types.TypeString(p.Type(), func(pk *types.Package) string {
			if pk == fn.Pkg.Pkg {
				return ""
			}
			return pk.Name()
		})
		lit := val
		if b.Info()&types.IsBoolean != 0 {
			decls = append(decls, fmt.Sprintf("\tvar in_%s %s = %s", p.Name(), ts, lit))
		} else {
			n, ok := new(big.Int).SetString(val, 10)
			if !ok {
				return false, ""
			}
			lo, hi, _ := intRange(b)
			if lo != nil && (n.Cmp(lo) < 0 || n.Cmp(hi) > 0) {
				return false, "replay: model value out of range for " + p.Name()
			}
			if n.Sign() < 0 {
				decls = append(decls, fmt.Sprintf("\tvar in_%s %s = %s", p.Name(), ts, n.String()))
			} else {
				decls = append(decls, fmt.Sprintf("\tvar in_%s %s = %s", p.Name(), ts, n.String()))
			}
		}
		tr.vars[p.Name()] = "in_" + p.Name()
		args = append(args, "in_"+p.Name())
		shown = append(shown, p.Name()+"="+lit)
	}
	// results
	var outs []string
	for k := 0; k < sig.Results().Len(); k++ {
		rt := sig.Results().At(k)
		isErr := types.Identical(rt.Type(), types.Universe.Lookup("error").Type())
		if b, ok := under(rt.Type()).(*types.Basic); !isErr && (!ok || b.Info()&(types.IsInteger|types.IsBoolean) == 0) {
			return false, ""
		}
		name := fmt.Sprintf("out%d", k)
		outs = append(outs, name)
		tr.vars[fmt.Sprintf("result%d", k)] = name
		if n := rt.Name(); n != "" && n != "_" {
			tr.vars[n] = name
		}
		if isErr {
			tr.vars["err"] = name
			tr.errs[name] = true
		}
	}
	if len(outs) == 1 {
		tr.vars["result"] = outs[0]
	}
	cond, ok := tr.expr(clause.E)
	if !ok {
		return false, "replay: the clause uses constructs the replay harness cannot evaluate in Go (" + tr.why + ")"
	}
	call := fn.Name() + "(" + strings.Join(args, ", ") + ")"
	var sb strings.Builder
	fmt.Fprintf(&sb, "package %s\n\nimport (\n\t\"testing\"\n\n\t\"google.golang.org/grpc/codes\"\n\t\"google.golang.org/grpc/status\"\n)\n\n", fn.Pkg.Pkg.Name())
	sb.WriteString("var _ = codes.OK\nvar _ = status.Code\n\n")
	sb.WriteString("func vcgoImp(a, b bool) bool { return !a || b }\n\n")
	sb.WriteString("func TestVcgoReplay(t *testing.T) {\n")
	sb.WriteString(strings.Join(decls, "\n") + "\n")
	if len(outs) > 0 {
		fmt.Fprintf(&sb, "\t%s := %s\n", strings.Join(outs, ", "), call)
		for _, o := range outs {
			fmt.Fprintf(&sb, "\t_ = %s\n", o)
		}
	} else {
		fmt.Fprintf(&sb, "\t%s\n", call)
	}
	fmt.Fprintf(&sb, "\tif !(%s) {\n\t\tt.Fatalf(\"VCGO-REPLAY-VIOLATION %%s: %s returned %%v\", %q, []interface{}{%s})\n\t}\n}\n",
		cond, strings.ReplaceAll(call, "\"", "'"), o.Name+" for "+strings.Join(shown, " "), strings.Join(outs, ", "))
	src := sb.String()

	// run it through an overlay
	pkgDir := ""
	if lp := e.lpkgs[fn.Pkg.Pkg.Path()]; lp != nil && len(lp.GoFiles) > 0 {
		pkgDir = filepath.Dir(lp.GoFiles[0])
	}
	if pkgDir == "" {
		return false, ""
	}
	tmp, err := os.MkdirTemp("", "vcgo-replay-")
	if err != nil {
		return false, ""
	}
	defer os.RemoveAll(tmp)
	tf := filepath.Join(tmp, "replay_test.go")
	os.WriteFile(tf, []byte(src), 0o644)
	rep := map[string]string{}
	if ms, _ := filepath.Glob(filepath.Join(pkgDir, "*_test.go")); ms != nil {
		for _, m := range ms {
			rep[m] = "" // the package's own tests need generated mocks; hide them
		}
	}
	rep[filepath.Join(pkgDir, "zz_vcgo_replay_test.go")] = tf
	ov, _ := json.Marshal(map[string]interface{}{"Replace": rep})
	ovf := filepath.Join(tmp, "overlay.json")
	os.WriteFile(ovf, ov, 0o644)
	cmd := exec.Command("go", "test", "-overlay", ovf, "-vet=off", "-count=1", "-timeout", "60s", "-run", "^TestVcgoReplay$", ".")
	cmd.Dir = pkgDir
	done := make(chan struct{})
	var out []byte
	go func() { out, _ = cmd.CombinedOutput(); close(done) }()
	select {
	case <-done:
	case <-time.After(180 * time.Second):
		if cmd.Process != nil {
			cmd.Process.Kill()
		}
		return false, "replay: go test did not finish"
	}
	text := string(out)
	if len(text) > 4000 {
		text = text[:4000]
	}
	transcript := "input (from the solver's model): " + strings.Join(shown, " ") + "\n--- injected test\n" + src + "--- go test output\n" + text
	if strings.Contains(string(out), "VCGO-REPLAY-VIOLATION") {
		return true, transcript
	}
	return false, "replay attempted, the real code did not violate the clause on the model's input (the model may rely on abstracted arithmetic)\n" + transcript
}

var modelValRe = regexp.MustCompile(`\(define-fun ([A-Za-z0-9_]+) \(\) (Int|Bool|\(_ BitVec \d+\))\s+([^\n]*)\)`)

// modelValue finds the value of the first constant whose name starts with
// prefix followed by digits.
func modelValue(model, prefix string) (string, bool) {
	for _, m := range modelValRe.FindAllStringSubmatch(model, -1) {
		name := m[1]
		if !strings.HasPrefix(name, prefix) {
			continue
		}
		rest := name[len(prefix):]
		if rest == "" || strings.Trim(rest, "0123456789") != "" {
			continue
		}
		v := strings.TrimSpace(m[3])
		switch {
		case v == "true" || v == "false":
			return v, true
		case strings.HasPrefix(v, "#x"):
			n, ok := new(big.Int).SetString(v[2:], 16)
			if !ok {
				return "", false
			}
			return n.String(), true
		case strings.HasPrefix(v, "#b"):
			n, ok := new(big.Int).SetString(v[2:], 2)
			if !ok {
				return "", false
			}
			return n.String(), true
		case strings.HasPrefix(v, "(- "):
			return "-" + strings.TrimSuffix(strings.TrimPrefix(v, "(- "), ")"), true
		default:
			if _, ok := new(big.Int).SetString(v, 10); ok {
				return v, true
			}
		}
	}
	return "", false
}

type goTranslator struct {
	e    *Engine
	vars map[string]string
	errs map[string]bool
	why  string
}

func (t *goTranslator) fail(f string, a ...interface{}) (string, bool) {
	t.why = fmt.Sprintf(f, a...)
	return "", false
}

func (t *goTranslator) expr(e SExpr) (string, bool) {
	if t.errs == nil {
		t.errs = map[string]bool{}
	}
	switch x := e.(type) {
	case SNum:
		return x.Val, true
	case SIdent:
		if v, ok := t.vars[x.Name]; ok {
			return v, true
		}
		switch x.Name {
		case "true", "false", "nil":
			return x.Name, true
		}
		if _, ok := grpcCodes[x.Name]; ok {
			return "codes." + x.Name, true
		}
		if c, ok := t.e.cs.Consts[x.Name]; ok {
			return t.expr(c)
		}
		return t.fail("identifier %s", x.Name)
	case SUn:
		a, ok := t.expr(x.X)
		if !ok {
			return "", false
		}
		return "(" + x.Op + a + ")", true
	case SBin:
		a, ok := t.expr(x.X)
		if !ok {
			return "", false
		}
		b, ok := t.expr(x.Y)
		if !ok {
			return "", false
		}
		switch x.Op {
		case "==>":
			return "vcgoImp(" + a + ", " + b + ")", true
		case "<==>":
			return "((" + a + ") == (" + b + "))", true
		case "&&", "||", "==", "!=", "<", "<=", ">", ">=", "+", "-", "*", "/", "%", "&", "|", "^", "<<", ">>":
			return "(" + a + " " + x.Op + " " + b + ")", true
		}
		return t.fail("operator %s", x.Op)
	case SCall:
		switch x.Fun {
		case "old":
			return t.expr(x.Args[0])
		case "code":
			a, ok := t.expr(x.Args[0])
			if !ok {
				return "", false
			}
			return "status.Code(" + a + ")", true
		case "ite":
			c, ok1 := t.expr(x.Args[0])
			a, ok2 := t.expr(x.Args[1])
			b, ok3 := t.expr(x.Args[2])
			if !ok1 || !ok2 || !ok3 {
				return "", false
			}
			return "func() int64 { if " + c + " { return int64(" + a + ") }; return int64(" + b + ") }()", true
		}
		if p, ok := t.e.cs.Pures[x.Fun]; ok && len(p.Params) == len(x.Args) {
			save := map[string]string{}
			for i, n := range p.Params {
				a, ok := t.expr(x.Args[i])
				if !ok {
					return "", false
				}
				save[n] = t.vars[n]
				defer func(n string) {
					if save[n] == "" {
						delete(t.vars, n)
					} else {
						t.vars[n] = save[n]
					}
				}(n)
				t.vars[n] = a
			}
			return t.expr(p.Body)
		}
		return t.fail("function %s", x.Fun)
	}
	return t.fail("%T", e)
}
