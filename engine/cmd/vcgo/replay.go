package main

// tryReplay turns a solver model into an execution of the real code where a
// replay harness exists for the function. Returns (reproduced, transcript).
func tryReplay(e *Engine, o *Obligation, model, repo, verif string) (bool, string) {
	return false, ""
}
