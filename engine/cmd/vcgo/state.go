package main

import (
	"fmt"
	"go/types"
	"sort"
	"strings"

	"golang.org/x/tools/go/ssa"
)

type ctxNode struct {
	cmd  string
	prev *ctxNode
}

type linRes struct {
	term  Term
	what  string // description for messages
	typ   string
	instr string
}

type deferred struct {
	call  *ssa.CallCommon
	instr ssa.Instruction
	fr    *Frame
}

// State is the symbolic state on one path.
type State struct {
	heap    map[string]Term
	ghost   map[string]Term
	cells   map[*Cell]Val
	globals map[string]Val
	top     Term
	ranged  map[string]bool
	ctx     *ctxNode
	lin     []linRes // linear resources obtained on this path
	path    []string // human-readable branch decisions
	errGlob []Term
	epoch   int             // >0 once the whole heap has been havocked
	hv      map[string]bool // keys havocked before their first access
}

func (st *State) clone() *State {
	n := &State{top: st.top, ctx: st.ctx, epoch: st.epoch}
	n.hv = make(map[string]bool, len(st.hv))
	for k, v := range st.hv {
		n.hv[k] = v
	}
	n.heap = make(map[string]Term, len(st.heap))
	for k, v := range st.heap {
		n.heap[k] = v
	}
	n.ghost = make(map[string]Term, len(st.ghost))
	for k, v := range st.ghost {
		n.ghost[k] = v
	}
	n.cells = make(map[*Cell]Val, len(st.cells))
	for k, v := range st.cells {
		n.cells[k] = v
	}
	n.globals = make(map[string]Val, len(st.globals))
	for k, v := range st.globals {
		n.globals[k] = v
	}
	n.ranged = make(map[string]bool, len(st.ranged))
	for k, v := range st.ranged {
		n.ranged[k] = v
	}
	n.lin = append([]linRes(nil), st.lin...)
	n.path = append([]string(nil), st.path...)
	n.errGlob = append([]Term(nil), st.errGlob...)
	return n
}

// Frame is one activation (the function under verification or an inlined callee).
type Frame struct {
	fn     *ssa.Function
	c      *Contract
	vals   map[ssa.Value]Val
	defers []deferred
	depth  int
	loops  *loopInfo
	seen   map[*ssa.BasicBlock]int // loop heads cut on this path (copy on fork)
	old    *State                  // entry state (for old())
	env    map[string]Val          // parameter bindings by name, for specs
	envT   map[string]types.Type
	top    bool
	// interior pointers held by loop-assigned variables when a loop head was
	// cut on this path (copy on fork), see interior.go
	interior map[*ssa.BasicBlock]map[*Cell]Val
}

func (fr *Frame) fork() *Frame {
	n := *fr
	if fr.interior != nil {
		n.interior = make(map[*ssa.BasicBlock]map[*Cell]Val, len(fr.interior))
		for k, v := range fr.interior {
			n.interior[k] = v
		}
	}
	n.vals = make(map[ssa.Value]Val, len(fr.vals))
	for k, v := range fr.vals {
		n.vals[k] = v
	}
	n.defers = append([]deferred(nil), fr.defers...)
	n.seen = make(map[*ssa.BasicBlock]int, len(fr.seen))
	for k, v := range fr.seen {
		n.seen[k] = v
	}
	return &n
}

// ---------------------------------------------------------------- heap ----

func (r *FnRun) heapArr(st *State, key string, elem Sort) Term {
	if t, ok := st.heap[key]; ok {
		return t
	}
	name := "H_" + shortKey(key)
	srt := SArr(SInt, elem)
	var t Term
	if st.epoch > 0 || st.hv[key] {
		t = r.fresh(name, srt)
	} else {
		r.declareGlobal(name, srt)
		t = Term{name, srt}
	}
	st.heap[key] = t
	return t
}

func (r *FnRun) elemArr(st *State, key string, elem Sort) Term {
	if t, ok := st.heap[key]; ok {
		return t
	}
	name := "M_" + shortKey(key)
	srt := SArr(SInt, SArr(r.idxSort(), elem))
	var t Term
	if st.epoch > 0 || st.hv[key] {
		t = r.fresh(name, srt)
	} else {
		r.declareGlobal(name, srt)
		t = Term{name, srt}
	}
	st.heap[key] = t
	return t
}

func (r *FnRun) ghostTerm(st *State, g *GhostDecl) Term {
	if t, ok := st.ghost[g.Name]; ok {
		return t
	}
	name := "G_" + sanitize(g.Name)
	srt := g.Sort
	for i := 0; i < g.Arity; i++ {
		srt = SArr(SInt, srt)
	}
	var t Term
	if st.hv["ghost:"+g.Name] {
		t = r.fresh(name, srt)
	} else {
		r.declareGlobal(name, srt)
		t = Term{name, srt}
	}
	st.ghost[g.Name] = t
	return t
}

// define introduces a named constant equal to t (keeps terms small).
func (r *FnRun) define(hint string, t Term) Term {
	if len(t.S) < 40 {
		return t
	}
	c := r.fresh(hint, t.Sort)
	r.assume(Eq(c, t))
	return c
}

// loadTyped reads a value of type t using rd for every scalar leaf.
func (r *FnRun) loadTyped(st *State, t types.Type, path string, rd func(path string, s Sort) Term) Val {
	switch u := under(t).(type) {
	case *types.Struct:
		sv := &StructVal{T: t}
		for i := 0; i < u.NumFields(); i++ {
			sv.F = append(sv.F, r.loadTyped(st, u.Field(i).Type(), joinPath(path, u.Field(i).Name()), rd))
		}
		return sv
	case *types.Slice:
		s := SliceVal{
			Base: rd(joinPath(path, "base"), SInt), Off: rd(joinPath(path, "off"), r.idxSort()),
			Len: rd(joinPath(path, "len"), r.idxSort()), Cap: rd(joinPath(path, "cap"), r.idxSort()), Elem: u.Elem(),
		}
		if !st.ranged[s.Len.S] {
			st.ranged[s.Len.S] = true
			r.assumeSliceWF(s)
		}
		// backing arrays that exist already are older than anything
		// allocated from now on (own key: a specification may have read
		// the slice before the code does)
		if !st.ranged["bb:"+s.Base.S] {
			st.ranged["bb:"+s.Base.S] = true
			r.assume(Le(s.Base, st.top))
		}
		return s
	}
	tm := rd(path, r.sortOf(t))
	r.assumeRange(st, tm, t)
	if _, ok := under(t).(*types.Pointer); ok && !st.ranged[tm.S] {
		st.ranged[tm.S] = true
		r.assume(And(Le(IntLit(0), tm), Le(tm, st.top)))
	}
	if _, ok := under(t).(*types.Map); ok && tm.Sort == SInt && !st.ranged["mpb:"+tm.S] {
		// a map stored in memory was made earlier
		st.ranged["mpb:"+tm.S] = true
		r.assume(Le(tm, st.top))
	}
	if _, ok := under(t).(*types.Interface); ok && tm.Sort == SInt && !st.ranged["ifb:"+tm.S] {
		// an interface value stored in memory was made earlier
		st.ranged["ifb:"+tm.S] = true
		r.assume(Le(tm, st.top))
	}
	if _, ok := under(t).(*types.Chan); ok && tm.Sort == SInt && !st.ranged[tm.S] {
		// a channel stored in memory was made earlier
		st.ranged[tm.S] = true
		r.assume(And(Le(IntLit(0), tm), Le(tm, st.top)))
	}
	return r.wrapScalar(tm, t)
}

func (r *FnRun) storeTyped(t types.Type, path string, v Val, wr func(path string, s Sort, tm Term)) {
	switch u := under(t).(type) {
	case *types.Struct:
		sv, ok := v.(*StructVal)
		if !ok {
			unsup("store of non-struct value %T into struct", v)
		}
		for i := 0; i < u.NumFields(); i++ {
			r.storeTyped(u.Field(i).Type(), joinPath(path, u.Field(i).Name()), sv.F[i], wr)
		}
		return
	case *types.Slice:
		s, ok := v.(SliceVal)
		if !ok {
			unsup("store of non-slice value %T into slice", v)
		}
		wr(joinPath(path, "base"), SInt, s.Base)
		wr(joinPath(path, "off"), r.idxSort(), s.Off)
		wr(joinPath(path, "len"), r.idxSort(), s.Len)
		wr(joinPath(path, "cap"), r.idxSort(), s.Cap)
		return
	}
	wr(path, r.sortOf(t), r.scalarOf(v))
}

func cellGet(v Val, path []int) Val {
	for _, i := range path {
		sv, ok := v.(*StructVal)
		if !ok {
			unsup("field path into non-struct cell")
		}
		v = sv.F[i]
	}
	return v
}

func cellSet(v Val, path []int, nv Val) Val {
	if len(path) == 0 {
		return nv
	}
	sv, ok := v.(*StructVal)
	if !ok {
		unsup("field path into non-struct cell")
	}
	c := &StructVal{T: sv.T, F: append([]Val(nil), sv.F...)}
	c.F[path[0]] = cellSet(sv.F[path[0]], path[1:], nv)
	return c
}

func (r *FnRun) load(st *State, p PtrVal, where string) Val {
	switch p.Kind {
	case pkCell:
		v, ok := st.cells[p.Cell]
		if !ok {
			unsup("read of unknown cell %s", p.Cell.name)
		}
		return cellGet(v, p.CPath)
	case pkHeap:
		r.oblige("NIL", where, Not(Eq(p.Ref, IntLit(0))), st)
		ref := p.Ref
		return r.loadTyped(st, p.Elem, p.Path, func(path string, s Sort) Term {
			return Select(r.heapArr(st, p.Root+"|"+path, s), ref)
		})
	case pkElem:
		return r.loadTyped(st, p.Elem, p.Path, func(path string, s Sort) Term {
			return Select(Select(r.elemArr(st, p.Root+"|"+path, s), p.Base), p.Idx)
		})
	case pkArr:
		at := under(p.Elem).(*types.Array)
		if !isScalarType(at.Elem()) {
			unsup("whole-array read of non-scalar array")
		}
		return Select(r.elemArr(st, "[]"+typeKey(at.Elem())+"|", r.sortOf(at.Elem())), p.Base)
	}
	panic("bad pointer kind")
}

func (r *FnRun) store(st *State, p PtrVal, v Val, where string) {
	switch p.Kind {
	case pkCell:
		old, ok := st.cells[p.Cell]
		if !ok {
			unsup("write of unknown cell")
		}
		st.cells[p.Cell] = cellSet(old, p.CPath, v)
	case pkHeap:
		r.oblige("NIL", where, Not(Eq(p.Ref, IntLit(0))), st)
		r.storeTyped(p.Elem, p.Path, v, func(path string, s Sort, tm Term) {
			key := p.Root + "|" + path
			arr := r.heapArr(st, key, s)
			if tm.S == Select(arr, p.Ref).S {
				return // writing back the value just read: the memory is unchanged
			}
			na := r.fresh("h_"+shortKey(key), arr.Sort)
			r.assume(Eq(na, Store(arr, p.Ref, tm)))
			st.heap[key] = na
			r.noteWrite(key)
		})
	case pkElem:
		r.storeTyped(p.Elem, p.Path, v, func(path string, s Sort, tm Term) {
			key := p.Root + "|" + path
			arr := r.elemArr(st, key, s)
			na := r.fresh("m_"+shortKey(key), arr.Sort)
			r.assume(Eq(na, Store(arr, p.Base, Store(Select(arr, p.Base), p.Idx, tm))))
			st.heap[key] = na
		})
	case pkArr:
		at := under(p.Elem).(*types.Array)
		if !isScalarType(at.Elem()) {
			unsup("whole-array write of non-scalar array")
		}
		key := "[]" + typeKey(at.Elem()) + "|"
		arr := r.elemArr(st, key, r.sortOf(at.Elem()))
		na := r.fresh("m_"+shortKey(key), arr.Sort)
		r.assume(Eq(na, Store(arr, p.Base, r.scalarOf(v))))
		st.heap[key] = na
	}
}

// havocKey replaces the whole array for a heap key by a fresh one.
func (r *FnRun) havocKey(st *State, key string) {
	old, ok := st.heap[key]
	if !ok {
		st.hv[key] = true
		return
	}
	st.heap[key] = r.fresh("hv_"+shortKey(key), old.Sort)
}

// havocAll forgets everything about the heap (not ghost state, not local cells).
func (r *FnRun) havocAll(st *State) {
	st.epoch++
	st.heap = map[string]Term{}
}

func (r *FnRun) heapKeysWithPrefix(st *State, prefix string) []string {
	var ks []string
	for k := range st.heap {
		if strings.HasPrefix(k, prefix) {
			ks = append(ks, k)
		}
	}
	sort.Strings(ks)
	return ks
}

// leafPaths enumerates the scalar leaves of a type.
func (r *FnRun) leafPaths(t types.Type, path string, out *[]leaf) {
	switch u := under(t).(type) {
	case *types.Struct:
		for i := 0; i < u.NumFields(); i++ {
			r.leafPaths(u.Field(i).Type(), joinPath(path, u.Field(i).Name()), out)
		}
		return
	case *types.Slice:
		*out = append(*out, leaf{joinPath(path, "base"), nil, SInt}, leaf{joinPath(path, "off"), nil, r.idxSort()},
			leaf{joinPath(path, "len"), nil, r.idxSort()}, leaf{joinPath(path, "cap"), nil, r.idxSort()})
		return
	}
	*out = append(*out, leaf{path, t, r.sortOf(t)})
}

// allocObject returns a fresh, non-nil reference whose fields hold zero values.
func (r *FnRun) allocObject(st *State, t types.Type, hint string) PtrVal {
	ref := r.fresh("new_"+hint, SInt)
	r.assume(Eq(ref, Add(st.top, IntLit(1))))
	st.top = ref
	p := PtrVal{Kind: pkHeap, Ref: ref, Root: r.rootKey(t), Elem: t}
	r.store(st, p, r.zeroVal(t), "alloc")
	// mutexes inside a freshly allocated object are not held by anybody
	var walk func(tt types.Type, path string)
	walk = func(tt types.Type, path string) {
		if isLockType(tt) {
			q := p
			q.Path = path
			q.Elem = tt
			if g := r.e.cs.Ghosts["held"]; g != nil {
				r.assume(Eq(Select(r.ghostTerm(st, g), r.addrIdent(q)), IntLit(0)))
			}
			return
		}
		if stt, ok := under(tt).(*types.Struct); ok {
			for i := 0; i < stt.NumFields(); i++ {
				walk(stt.Field(i).Type(), joinPath(path, stt.Field(i).Name()))
			}
		}
	}
	walk(t, "")
	return p
}

func (r *FnRun) newCell(st *State, t types.Type, name string) *Cell {
	r.cellCtr++
	c := &Cell{id: r.cellCtr, name: name, typ: t}
	st.cells[c] = r.zeroVal(t)
	return c
}

func fmtPath(p []string) string { return strings.Join(p, " ; ") }

var _ = fmt.Sprintf
