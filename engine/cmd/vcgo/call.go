package main

import (
	"fmt"
	"go/token"
	"go/types"
	"strings"

	"golang.org/x/tools/go/ssa"
)

const modPath = "github.com/buildbarn/bb-storage"

func inRepo(pkgPath string) bool { return strings.HasPrefix(pkgPath, modPath) }

func fnPkgPath(fn *ssa.Function) string {
	if fn.Pkg != nil {
		return fn.Pkg.Pkg.Path()
	}
	if fn.Object() != nil && fn.Object().Pkg() != nil {
		return fn.Object().Pkg().Path()
	}
	if fn.Parent() != nil {
		return fnPkgPath(fn.Parent())
	}
	if o := fn.Origin(); o != nil && o != fn {
		return fnPkgPath(o)
	}
	return ""
}

// relName is the function name relative to its package, the form used in
// contract files: F, (*T).M, (T).M, F$1, (*T).M$1$2.
func relName(fn *ssa.Function) string {
	s := fn.String()
	p := fnPkgPath(fn)
	if p != "" {
		s = strings.ReplaceAll(s, p+".", "")
	}
	return s
}

func (e *Engine) contractFor(fn *ssa.Function) *Contract {
	p := fnPkgPath(fn)
	if c, ok := e.cs.ByKey[p+"::"+relName(fn)]; ok {
		return c
	}
	if c, ok := e.cs.ByKey[fn.String()]; ok {
		return c
	}
	if o := fn.Origin(); o != nil && o != fn {
		return e.contractFor(o)
	}
	return nil
}

func (e *Engine) ifaceContract(recvT types.Type, m *types.Func) *Contract {
	try := func(t types.Type) *Contract {
		t = types.Unalias(t)
		if n, ok := t.(*types.Named); ok && n.Obj().Pkg() != nil {
			if c, ok := e.cs.ByKey[n.Obj().Pkg().Path()+"::"+n.Obj().Name()+"."+m.Name()]; ok {
				return c
			}
			// embedded interfaces
			if it, ok := n.Underlying().(*types.Interface); ok {
				for i := 0; i < it.NumEmbeddeds(); i++ {
					if en, ok := types.Unalias(it.EmbeddedType(i)).(*types.Named); ok && en.Obj().Pkg() != nil {
						if c, ok := e.cs.ByKey[en.Obj().Pkg().Path()+"::"+en.Obj().Name()+"."+m.Name()]; ok {
							return c
						}
					}
				}
			}
		}
		return nil
	}
	if c := try(recvT); c != nil {
		return c
	}
	if sig, ok := m.Type().(*types.Signature); ok && sig.Recv() != nil {
		return try(sig.Recv().Type())
	}
	return nil
}

func (r *FnRun) args(fr *Frame, st *State, c *ssa.CallCommon) []Val {
	var out []Val
	for _, a := range c.Args {
		out = append(out, r.val(fr, st, a))
	}
	return out
}

func sigResults(sig *types.Signature) []types.Type {
	var out []types.Type
	for i := 0; i < sig.Results().Len(); i++ {
		out = append(out, sig.Results().At(i).Type())
	}
	return out
}

func (r *FnRun) freshResults(st *State, sig *types.Signature, hint string) []Val {
	// the callee may have allocated: the top grows first, so that the range
	// facts of the result values ("refers to something that exists") are
	// stated against the new top and a result may be a new object
	r.bumpTop(st, nil)
	var out []Val
	for i, t := range sigResults(sig) {
		out = append(out, r.freshVal(st, t, fmt.Sprintf("%s_r%d", hint, i)))
	}
	for _, v := range out {
		r.boundedBy(st.top, v)
	}
	return out
}

// bumpTop lets a call allocate: the heap top may grow and returned references
// may point to new objects.
func (r *FnRun) bumpTop(st *State, results []Val) {
	nt := r.fresh("top", SInt)
	r.assume(Ge(nt, st.top))
	st.top = nt
	for _, v := range results {
		r.boundedBy(nt, v)
	}
}

// boundedBy assumes that every reference inside v is at most nt.
func (r *FnRun) boundedBy(nt Term, v0 Val) {
	results := []Val{v0}
	var visit func(v Val)
	visit = func(v Val) {
		switch b := v.(type) {
		case PtrVal:
			if b.Kind == pkHeap {
				r.assume(Le(b.Ref, nt))
			}
		case IfaceVal:
			r.assume(Le(b.T, nt))
		case ClosureVal:
			r.assume(Le(b.T, nt))
		case SliceVal:
			r.assume(Le(b.Base, nt))
		case *StructVal:
			for _, f := range b.F {
				visit(f)
			}
		case TupleVal:
			for _, f := range b {
				visit(f)
			}
		}
	}
	for _, v := range results {
		visit(v)
	}
}

func (r *FnRun) execGo(fr *Frame, st *State, x *ssa.Go) {
	r.note("go statement: the goroutine body is verified separately; the spawner learns nothing about its effects")
	for _, a := range x.Call.Args {
		v := r.val(fr, st, a)
		r.linearTransfer(st, v, "passed to goroutine")
	}
	if cv, ok := r.val(fr, st, x.Call.Value).(ClosureVal); ok && !x.Call.IsInvoke() {
		r.linearCaptured(fr, st, cv.Bind)
		for _, b := range cv.Bind {
			if p, ok := b.(PtrVal); ok && p.Kind == pkCell {
				st.hv["escaped:"+p.Cell.key()] = true
			}
		}
	}
}

func (r *FnRun) execCall(fr *Frame, st *State, c *ssa.CallCommon, instr ssa.Instruction, _ ssa.Value, k contFn) {
	r.cur = st
	where := r.e.describe(fr.fn, instr)
	sig := c.Signature()
	if c.IsInvoke() {
		recv := r.val(fr, st, c.Value)
		iv, ok := recv.(IfaceVal)
		if !ok {
			unsup("invoke on %T", recv)
		}
		args := r.args(fr, st, c)
		if iv.Dyn != nil {
			if fn := r.e.prog.LookupMethod(iv.Dyn, c.Method.Pkg(), c.Method.Name()); fn != nil {
				r.callStatic(fr, st, fn, append([]Val{iv.Inner}, args...), nil, where, sig, k)
				return
			}
		}
		r.oblige("NIL", where, Not(Eq(iv.T, IntLit(0))), st)
		if ct := r.e.ifaceContract(c.Value.Type(), c.Method); ct != nil {
			names := []string{"self"}
			ms := c.Method.Type().(*types.Signature)
			for i := 0; i < ms.Params().Len(); i++ {
				n := ms.Params().At(i).Name()
				if n == "" || n == "_" {
					n = fmt.Sprintf("a%d", i)
				}
				names = append(names, n)
			}
			res := r.callByContract(fr, st, ct, names, append([]Val{recv}, args...), sig, where, c.Method.Name())
			k(fr, st, res)
			return
		}
		r.unknownCall(fr, st, fmt.Sprintf("interface method %s.%s", typeKey(c.Value.Type()), c.Method.Name()), methodInRepo(c), args, sig, where, k)
		return
	}
	if b, ok := c.Value.(*ssa.Builtin); ok {
		if b.Name() == "append" && r.contents && !r.bv {
			// with contents tracked, the two outcomes of append (in place /
			// reallocated) are explored as two paths
			args := r.args(fr, st, c)
			if s, ok := args[0].(SliceVal); ok && r.contentsFor(s.Elem) {
				st2, fr2 := st.clone(), fr.fork()
				r.push()
				r.cur = st
				st.path = append(st.path, where+":append-in-place")
				k(fr, st, []Val{r.appendCase(st, s, args[1], where, true)})
				r.pop()
				r.push()
				r.cur = st2
				st2.path = append(st2.path, where+":append-realloc")
				k(fr2, st2, []Val{r.appendCase(st2, s, args[1], where, false)})
				r.pop()
				return
			}
		}
		res := r.builtin(fr, st, b, c, where)
		k(fr, st, res)
		return
	}
	if fn := c.StaticCallee(); fn != nil {
		var bind []Val
		if mc, ok := c.Value.(*ssa.MakeClosure); ok {
			if cv, ok := fr.vals[mc].(ClosureVal); ok {
				bind = cv.Bind
			}
		}
		r.callStatic(fr, st, fn, r.args(fr, st, c), bind, where, sig, k)
		return
	}
	fv := r.val(fr, st, c.Value)
	if cv, ok := fv.(ClosureVal); ok {
		if cv.Fn != nil {
			r.callStatic(fr, st, cv.Fn, r.args(fr, st, c), cv.Bind, where, sig, k)
			return
		}
		r.oblige("NIL", where, Not(Eq(cv.T, IntLit(0))), st)
		// contract on a named function type: "iface T.call"
		if n, ok := types.Unalias(c.Value.Type()).(*types.Named); ok && n.Obj().Pkg() != nil {
			if ct, ok := r.e.cs.ByKey[n.Obj().Pkg().Path()+"::"+n.Obj().Name()+".call"]; ok {
				names := []string{"self"}
				for i := 0; i < sig.Params().Len(); i++ {
					nm := sig.Params().At(i).Name()
					if nm == "" || nm == "_" {
						nm = fmt.Sprintf("a%d", i)
					}
					names = append(names, nm)
				}
				res := r.callByContract(fr, st, ct, names, append([]Val{fv}, r.args(fr, st, c)...), sig, where, n.Obj().Name())
				k(fr, st, res)
				return
			}
		}
		// contract on a function-typed parameter of unnamed type:
		// "opt funcparam <param>=<Name>" in the caller's contract selects
		// the block "iface <Name>.call"
		if fr.c != nil {
			for _, pr := range strings.Fields(fr.c.Opts["funcparam"]) {
				kv := strings.SplitN(pr, "=", 2)
				vname := c.Value.Name()
				if u, ok := c.Value.(*ssa.UnOp); ok && u.Op == token.MUL {
					// naive-form SSA: the parameter is read back from its cell
					if a, ok := u.X.(*ssa.Alloc); ok {
						vname = a.Comment
					}
				}
				if len(kv) == 2 && kv[0] == vname {
					if ct, ok := r.e.cs.ByKey[fnPkgPath(fr.fn)+"::"+kv[1]+".call"]; ok {
						names := []string{"self"}
						for i := 0; i < sig.Params().Len(); i++ {
							nm := sig.Params().At(i).Name()
							if nm == "" || nm == "_" {
								nm = fmt.Sprintf("a%d", i)
							}
							names = append(names, nm)
						}
						res := r.callByContract(fr, st, ct, names, append([]Val{fv}, r.args(fr, st, c)...), sig, where, kv[1])
						k(fr, st, res)
						return
					}
					sfail("%s: opt funcparam names unknown contract %q", relName(fr.fn), kv[1])
				}
			}
		}
		r.unknownCall(fr, st, "function value of type "+typeKey(c.Value.Type()), true, r.args(fr, st, c), sig, where, k)
		return
	}
	unsup("call of %T", fv)
}

func methodInRepo(c *ssa.CallCommon) bool {
	if c.Method != nil && c.Method.Pkg() != nil {
		return inRepo(c.Method.Pkg().Path())
	}
	return false
}

// unknownCall havocs what an unspecified callee may touch.
func (r *FnRun) unknownCall(fr *Frame, st *State, what string, repo bool, args []Val, sig *types.Signature, where string, k contFn) {
	if repo {
		r.note("call to %s without contract: the whole heap is havocked", what)
		r.havocAll(st)
		r.havocEscaped(st)
	} else {
		r.note("call to %s without contract: results unconstrained, repository heap assumed untouched", what)
		r.havocArgs(st, args)
	}
	for _, a := range args {
		r.linearConsumeArg(st, a, where, what)
	}
	res := r.freshResults(st, sig, "call")
	r.linearResults(st, res, sigResults(sig), where, what)
	k(fr, st, res)
}

// havocArgs forgets the contents of memory reachable through pointer and slice
// arguments handed to an unknown external function.
func (r *FnRun) havocArgs(st *State, args []Val) {
	for _, a := range args {
		switch b := a.(type) {
		case SliceVal:
			var ls []leaf
			r.leafPaths(b.Elem, "", &ls)
			for _, l := range ls {
				key := "[]" + typeKey(b.Elem) + "|" + l.path
				arr := r.elemArr(st, key, l.sort)
				na := r.fresh("m_"+shortKey(key), arr.Sort)
				fa := r.fresh("hv_elems", SArr(r.idxSort(), l.sort))
				r.assume(Eq(na, Store(arr, b.Base, fa)))
				st.heap[key] = na
			}
		case PtrVal:
			if b.Kind == pkCell {
				if _, ok := st.cells[b.Cell]; ok {
					st.cells[b.Cell] = cellSet(st.cells[b.Cell], b.CPath, r.freshVal(st, b.Elem, "hv_"+b.Cell.name))
				}
			} else if b.Kind == pkHeap {
				var ls []leaf
				r.leafPaths(b.Elem, b.Path, &ls)
				for _, l := range ls {
					key := b.Root + "|" + l.path
					arr := r.heapArr(st, key, l.sort)
					na := r.fresh("h_"+shortKey(key), arr.Sort)
					r.assume(Eq(na, Store(arr, b.Ref, r.fresh("hv", l.sort))))
					st.heap[key] = na
				}
			}
		}
	}
}

func (r *FnRun) havocEscaped(st *State) {
	// escapedness is a property of the path (st.hv is copied on fork), not of
	// the cell object, which sibling paths share
	for c := range st.cells {
		if c.escaped || st.hv["escaped:"+c.key()] {
			st.cells[c] = r.freshVal(st, c.typ, "esc_"+c.name)
		}
	}
}

func (r *FnRun) callStatic(fr *Frame, st *State, fn *ssa.Function, args []Val, bind []Val, where string, sig *types.Signature, k contFn) {
	if res, ok := r.modelCall(fr, st, fn, args, where, sig); ok {
		k(fr, st, res)
		return
	}
	ct := r.e.contractFor(fn)
	if ct != nil && !ct.Inline {
		var names []string
		for _, p := range fn.Params {
			names = append(names, p.Name())
		}
		if len(fn.Params) == 0 {
			// a function or method of a package whose bodies were not built
			if fn.Signature.Recv() != nil {
				names = append(names, "self")
			}
			for i := 0; i < fn.Signature.Params().Len(); i++ {
				if n := fn.Signature.Params().At(i).Name(); n != "" && n != "_" {
					names = append(names, n)
				} else {
					names = append(names, fmt.Sprintf("a%d", i))
				}
			}
		}
		for i := len(names); i < len(args); i++ {
			names = append(names, fmt.Sprintf("a%d", i))
		}
		r.curCallee = fn
		res := r.callByContract(fr, st, ct, names, args, fn.Signature, where, relName(fn))
		k(fr, st, res)
		return
	}
	canInline := len(fn.Blocks) > 0 && fr.depth < 6 && (ct != nil && ct.Inline || fn.Parent() != nil && bind != nil || r.e.autoInline(fn))
	if canInline {
		r.inline(fr, st, fn, ct, args, bind, where, k)
		return
	}
	repo := inRepo(fnPkgPath(fn))
	if repo && len(fn.Blocks) > 0 {
		ms := r.e.modInfer(fn)
		if ms.all {
			r.note("call to %s without contract: inferred frame is unbounded, whole heap havocked", relName(fn))
			r.havocAll(st)
			for g := range r.e.cs.Ghosts {
				_ = g
			}
		} else {
			keys := ms.sortedKeys()
			if len(keys) > 0 {
				r.note("call to %s without contract: havoc of inferred frame %v", relName(fn), keys)
			}
			for _, kp := range keys {
				r.havocInferred(st, kp)
			}
		}
		r.havocEscaped(st)
		for _, a := range args {
			r.linearConsumeArg(st, a, where, relName(fn))
		}
		res := r.freshResults(st, sig, sanitize(fn.Name()))
		r.linearResults(st, res, sigResults(sig), where, relName(fn))
		k(fr, st, res)
		return
	}
	r.unknownCall(fr, st, fn.String(), false, args, sig, where, k)
}

// havocInferred forgets one key prefix of an inferred frame ("Root|path").
// A struct that is embedded by value in other structs lives under the keys of
// its parents, so the same fields are forgotten there as well.
func (r *FnRun) havocInferred(st *State, kp string) {
	apply := func(k string) {
		for _, hk := range r.heapKeysWithPrefix(st, k) {
			r.havocKey(st, hk)
		}
		st.hv[k] = true
		r.hvPrefix(st, k)
	}
	apply(kp)
	i := strings.Index(kp, "|")
	if i < 0 || strings.HasPrefix(kp, "[]") || strings.HasPrefix(kp, "map:") || strings.HasPrefix(kp, "*") {
		return
	}
	root, path := kp[:i], kp[i+1:]
	for _, site := range r.e.embedSites(root) {
		apply(site.root + "|" + joinPath(site.path, path))
		apply("[]" + site.root + "|" + joinPath(site.path, path))
	}
}

// havocImplementors forgets the fields of every object that an interface value
// of type it may refer to: all heap keys except those rooted at a named struct
// type T for which neither T nor *T implements it. Keys that have not been
// mentioned yet start fresh (as after havocAll).
func (r *FnRun) havocImplementors(st *State, it *types.Interface) {
	keep := map[string]Term{}
	for k, t := range st.heap {
		i := strings.Index(k, "|")
		if i <= 0 {
			continue
		}
		root := k[:i]
		if strings.HasPrefix(root, "[]") || strings.HasPrefix(root, "map:") || strings.HasPrefix(root, "*") {
			continue
		}
		nt := r.e.namedType(root)
		if nt == nil {
			continue
		}
		if types.Implements(nt, it) || types.Implements(types.NewPointer(nt), it) {
			continue
		}
		// also objects that embed such a struct by value could be reached
		// through a pointer to the embedded part: be conservative there
		reach := false
		for _, site := range r.e.embedSites(root) {
			_ = site
			reach = true
		}
		if reach {
			continue
		}
		keep[k] = t
	}
	r.havocAll(st)
	for k, t := range keep {
		st.heap[k] = t
	}
}

// hvPrefix remembers that every key below prefix must start fresh.
func (r *FnRun) hvPrefix(st *State, prefix string) {
	st.hv["prefix:"+prefix] = true
}

func (r *FnRun) inline(fr *Frame, st *State, fn *ssa.Function, ct *Contract, args []Val, bind []Val, where string, k contFn) {
	nf := &Frame{fn: fn, c: ct, vals: map[ssa.Value]Val{}, depth: fr.depth + 1, loops: analyzeLoops(fn), seen: map[*ssa.BasicBlock]int{}, old: fr.old, env: map[string]Val{}}
	if ct == nil {
		nf.c = &Contract{NoPanic: true, Loops: map[int]*LoopSpec{}}
	}
	if len(args) != len(fn.Params) {
		unsup("inline %s: argument count mismatch", fn)
	}
	for i, p := range fn.Params {
		nf.vals[p] = args[i]
		nf.env[p.Name()] = args[i]
	}
	for i, fv := range fn.FreeVars {
		if i >= len(bind) {
			unsup("inline %s: missing closure binding", fn)
		}
		nf.vals[fv] = bind[i]
	}
	caller := fr
	r.execBlock(nf, st, fn.Blocks[0], nil, func(_ *Frame, st2 *State, res []Val) {
		k(caller.fork(), st2, res)
	})
}

// callByContract replaces a call by its contract: assert requires, havoc
// modifies, assume ensures.
func (r *FnRun) callByContract(fr *Frame, st *State, ct *Contract, names []string, args []Val, sig *types.Signature, where, what string) []Val {
	vars := map[string]Val{}
	for i, n := range names {
		if i < len(args) {
			vars[n] = args[i]
		}
	}
	if fr.c != nil && fr.old != nil {
		for _, cl := range fr.c.CallAssume[what] {
			aenv := r.invEnv(fr, st)
			aenv.vars = map[string]Val{}
			for k, v := range fr.env {
				aenv.vars[k] = v
			}
			for i, a := range args {
				aenv.vars[fmt.Sprintf("arg%d", i)] = a
			}
			aenv.what = "callassume " + what
			r.assume(r.evalBool(cl.E, aenv))
			r.note("ASSUMED before %s in %s: %s", what, shortName(r.name), cl.Src)
		}
	}
	if fr.c != nil && fr.old != nil {
		// callrequires: an obligation of the calling function at each of its
		// calls to <callee>, over its own locals and the arguments (arg0 is the
		// receiver of a method)
		for _, cl := range fr.c.CallRequires[what] {
			cenv := r.invEnv(fr, st)
			cenv.vars = map[string]Val{}
			for k, v := range fr.env {
				cenv.vars[k] = v
			}
			for i, a := range args {
				cenv.vars[fmt.Sprintf("arg%d", i)] = a
			}
			cenv.what = "callrequires " + what + " " + cl.Label
			r.obligeClause("PRE", fmt.Sprintf("%s@%s:%s", what, where, cl.Label), cl.E, cenv, st)
		}
	}
	if fr.c != nil && fr.old != nil {
		for _, gs := range fr.c.CallGhost[what] {
			genv := &specEnv{st: st, old: fr.old, vars: vars, pkg: fnPkgPath(fr.fn), what: "callghost " + gs.Src, oldTop: fr.old.top}
			r.ghostAssign(st, gs, genv)
		}
	}
	if fr.c != nil && fr.old != nil {
		for _, gs := range fr.c.AtCall[what] {
			genv := r.invEnv(fr, st)
			genv.what = "atcall " + gs.Src
			r.ghostAssign(st, gs, genv)
		}
	}
	pre := st.clone()
	preCtx := st.ctx
	env := &specEnv{st: st, old: pre, vars: vars, pkg: ct.Pkg, what: ct.Name, oldTop: st.top}
	if n := sig.Params().Len(); n > 0 {
		// names may start with "self"; parameters are the last n of them
		env.ptypes = map[string]types.Type{}
		off := len(names) - n
		for i := 0; i < n && off >= 0; i++ {
			env.ptypes[names[off+i]] = sig.Params().At(i).Type()
		}
	}
	for _, cl := range ct.Requires {
		env.what = ct.Name + " requires " + cl.Label
		r.obligeClause("PRE", fmt.Sprintf("%s@%s:%s", what, where, cl.Label), cl.E, env, st)
	}
	// the vacuity guard compares with the path as it stands once the callee's
	// preconditions hold: a path on which they fail is reported as a PRE
	// obligation, not as a contradictory contract
	preCtx = st.ctx
	for i, a := range args {
		borrowed := false
		for _, b := range ct.Borrows {
			if i < len(names) && names[i] == b {
				borrowed = true
			}
		}
		if !borrowed {
			r.linearConsumeArg(st, a, where, what)
		}
	}
	// frame
	if ct.ModAll {
		r.havocAll(st)
	}
	for _, m := range ct.Modifies {
		r.havocTarget(st, m.E, env)
	}
	callee := r.curCallee
	r.curCallee = nil
	if !ct.HasMod && !ct.ModAll {
		// no modifies clause: a function of the repository changes what the
		// scan of its body (and of its callees) says it may change; anything
		// else may change the whole heap
		if callee != nil && len(callee.Blocks) > 0 && inRepo(fnPkgPath(callee)) {
			ms := r.e.modInfer(callee)
			if ms.all {
				r.havocAll(st)
			} else {
				for _, kp := range ms.sortedKeys() {
					r.havocInferred(st, kp)
				}
			}
			for g := range ms.ghosts {
				if gd, ok := r.e.cs.Ghosts[g]; ok && g != "held" {
					old := r.ghostTerm(st, gd)
					st.ghost[g] = r.fresh("G_"+g, old.Sort)
				}
			}
			// ghosts the callee assigns at its exits ("exitghost") are part of
			// its frame as well
			for _, gs := range ct.ExitGhost {
				name := ""
				switch t := gs.Target.(type) {
				case SCall:
					name = t.Fun
				case SIdent:
					name = t.Name
				}
				if gd, ok := r.e.cs.Ghosts[name]; ok {
					old := r.ghostTerm(st, gd)
					st.ghost[name] = r.fresh("G_"+name, old.Sort)
				}
			}
			r.note("%s has no modifies clause: inferred frame used at call sites", ct.Name)
		} else if ct.Kind != "func" {
			// an assumed (interface / external) contract states everything its
			// callers may rely on; no frame clause means "modifies nothing"
			r.note("%s %s has no modifies clause: assumed to change nothing its callers can see", ct.Kind, ct.Name)
		}
	}
	r.havocEscaped(st)
	res := r.freshResults(st, sig, sanitize(what))
	// bind results
	rs := sig.Results()
	for i := 0; i < rs.Len(); i++ {
		n := rs.At(i).Name()
		if n != "" && n != "_" {
			vars[n] = res[i]
		}
		vars[fmt.Sprintf("result%d", i)] = res[i]
	}
	if rs.Len() == 1 {
		vars["result"] = res[0]
	}
	if rs.Len() > 0 {
		if types.Identical(rs.At(rs.Len()-1).Type(), types.Universe.Lookup("error").Type()) {
			if _, taken := vars["err"]; !taken {
				vars["err"] = res[rs.Len()-1]
			}
		}
	}
	if dopt := ct.Opts["deterministic"]; dopt != "" && len(res) == 1 {
		ufn, dargs := splitDeterministic(dopt)
		u := r.e.cs.UFuncs[ufn]
		if u == nil {
			sfail("%s: deterministic names unknown ufunc %q", ct.Name, ufn)
		}
		r.declareFun("uf_"+u.Name, r.msl(u.Args), r.ms(u.Res))
		var ts []Term
		if dargs == nil {
			for _, a := range args {
				ts = append(ts, r.argTerm(a, env))
			}
		} else {
			penv := &specEnv{st: pre, old: pre, vars: vars, pkg: ct.Pkg, what: ct.Name + " deterministic"}
			for _, a := range dargs {
				ex, err := parseSpec(a)
				if err != nil {
					sfail("%s: %v", ct.Name, err)
				}
				ts = append(ts, r.argTerm(r.evalSpec(ex, penv), penv))
			}
		}
		r.assume(Eq(termOf(res[0]), App("uf_"+u.Name, r.ms(u.Res), ts...)))
	}
	post := &specEnv{st: st, old: pre, vars: vars, pkg: ct.Pkg, what: ct.Name, oldTop: pre.top}
	for _, cl := range ct.Ensures {
		post.what = ct.Name + " ensures " + cl.Label
		func() {
			// a clause that mentions the callee's local variables is checked
			// when the callee is verified but tells its callers nothing
			defer func() {
				if x := recover(); x != nil {
					if sf, ok := x.(specFail); ok && strings.Contains(sf.msg, "unknown identifier") && ct.Kind == "func" {
						r.note("%s ensures %s speaks about callee locals; not used at call sites", shortName(ct.Name), cl.Label)
						return
					}
					panic(x)
				}
			}()
			r.assume(r.evalBool(cl.E, post))
		}()
	}
	r.linearResults(st, res, sigResults(sig), where, what)
	if ct.Trusted || ct.Kind != "func" {
		r.note("assumed contract: %s %s", ct.Kind, ct.Name)
	}
	if r.e.covers && len(ct.Ensures) > 0 {
		r.coverAfterCall(what+"@"+where, st, preCtx)
	}
	return res
}

// havocTarget forgets one modifies target.
func (r *FnRun) havocTarget(st *State, e SExpr, env *specEnv) {
	switch x := e.(type) {
	case SIdent:
		if g, ok := r.e.cs.Ghosts[x.Name]; ok {
			old := r.ghostTerm(st, g)
			st.ghost[g.Name] = r.fresh("G_"+g.Name, old.Sort)
			return
		}
		if x.Name == "heap" {
			r.havocAll(st)
			return
		}
	case SCall:
		if x.Fun == "fields" {
			// every field of the object an interface or pointer value refers to
			pre := *env
			pre.st = env.old
			v := r.evalSpec(x.Args[0], &pre)
			if iv, ok := v.(IfaceVal); ok {
				if iv.Inner == nil && strings.HasPrefix(iv.T.S, "glob_") && !strings.Contains(iv.T.S, "buildbarn") {
					// a package-level value of an external package (io.Discard):
					// its state is not part of the modelled heap
					return
				}
				if iv.Inner == nil {
					if id, ok := x.Args[0].(SIdent); ok && env.ptypes != nil {
						if it, ok := under(env.ptypes[id.Name]).(*types.Interface); ok && it.NumMethods() > 0 {
							r.note("modifies fields(%s) with unknown dynamic type: every object whose type implements %s is havocked", id.Name, typeKey(env.ptypes[id.Name]))
							r.havocImplementors(st, it)
							return
						}
					}
					r.note("modifies fields(x) with unknown dynamic type: whole heap havocked")
					r.havocAll(st)
					return
				}
				v = iv.Inner
			}
			if p, ok := v.(PtrVal); ok {
				r.havocArgs(st, []Val{p})
				return
			}
			return
		}
		if x.Fun == "elems" {
			pre := *env
			pre.st = env.old
			v := r.evalSpec(x.Args[0], &pre)
			if s, ok := v.(SliceVal); ok {
				r.havocArgs(st, []Val{s})
				return
			}
		}
		if g, ok := r.e.cs.Ghosts[x.Fun]; ok {
			arr := r.ghostTerm(st, g)
			pre := *env
			pre.st = env.old
			var idx []Term
			for _, a := range x.Args {
				idx = append(idx, r.argTerm(r.evalSpec(a, &pre), env))
			}
			if len(idx) == 1 && g.Arity == 1 {
				na := r.fresh("G_"+g.Name, arr.Sort)
				r.assume(Eq(na, Store(arr, idx[0], r.fresh("gv", g.Sort))))
				st.ghost[g.Name] = na
				return
			}
			if len(idx) == 1 && g.Arity == 2 {
				// g(x, *): everything keyed by x
				na := r.fresh("G_"+g.Name, arr.Sort)
				r.assume(Eq(na, Store(arr, idx[0], r.fresh("gv", arr.Sort.ArrElem()))))
				st.ghost[g.Name] = na
				return
			}
			if len(idx) == 2 && g.Arity == 2 {
				na := r.fresh("G_"+g.Name, arr.Sort)
				r.assume(Eq(na, Store(arr, idx[0], Store(Select(arr, idx[0]), idx[1], r.fresh("gv", g.Sort)))))
				st.ghost[g.Name] = na
				return
			}
			st.ghost[g.Name] = r.fresh("G_"+g.Name, arr.Sort)
			return
		}
	case SSel:
		// T.f (whole field of every object of named type T) or x.f
		if id, ok := x.X.(SIdent); ok {
			if _, isVar := env.vars[id.Name]; !isVar {
				if tn := r.e.lookupType(env.pkg, id.Name); tn != nil {
					prefix := r.rootKey(tn) + "|" + x.Name
					for _, hk := range r.heapKeysWithPrefix(st, prefix) {
						if hk == prefix || strings.HasPrefix(hk, prefix+".") {
							r.havocKey(st, hk)
						}
					}
					var ls []leaf
					_, f := fieldIndex(tn, x.Name)
					if f == nil {
						sfail("modifies: type %s has no field %s", id.Name, x.Name)
					}
					r.leafPaths(f.Type(), x.Name, &ls)
					for _, l := range ls {
						if _, ok := st.heap[r.rootKey(tn)+"|"+l.path]; !ok {
							st.hv[r.rootKey(tn)+"|"+l.path] = true
						}
					}
					return
				}
			}
		}
		pre := *env
		pre.st = env.old
		base := r.evalSpec(x.X, &pre)
		p, ok := base.(PtrVal)
		if !ok {
			sfail("modifies target %v: base is %T", e, base)
		}
		_, f := fieldIndex(p.Elem, x.Name)
		if f == nil {
			sfail("modifies target: no field %s in %s", x.Name, p.Elem)
		}
		np := p
		np.Elem = f.Type()
		if p.Kind == pkCell {
			i, _ := fieldIndex(p.Elem, x.Name)
			np.CPath = append(append([]int(nil), p.CPath...), i)
		} else {
			np.Path = joinPath(p.Path, x.Name)
		}
		r.havocArgs(st, []Val{np})
		return
	}
	sfail("unsupported modifies target %#v", e)
}

// ----------------------------------------------------------- loop support --

func (r *FnRun) loopSpec(fr *Frame, l *loopT) *LoopSpec {
	if fr.c == nil {
		return nil
	}
	return fr.c.Loops[l.ordinal]
}

func (r *FnRun) invEnv(fr *Frame, st *State) *specEnv {
	pkg := fnPkgPath(fr.fn)
	return &specEnv{st: st, old: fr.old, vars: fr.env, fr: fr, useCells: true, pkg: pkg, oldTop: fr.old.top}
}

func (r *FnRun) checkInvariants(fr *Frame, st *State, l *loopT, kind string) {
	ls := r.loopSpec(fr, l)
	if ls == nil {
		return
	}
	env := r.invEnv(fr, st)
	for _, cl := range ls.Invs {
		env.what = fmt.Sprintf("%s loop %d invariant %s", relName(fr.fn), l.ordinal, cl.Label)
		r.obligeClause(kind, fmt.Sprintf("loop%d:%s", l.ordinal, cl.Label), cl.E, env, st)
	}
}

func (r *FnRun) assumeInvariants(fr *Frame, st *State, l *loopT) {
	ls := r.loopSpec(fr, l)
	if ls == nil {
		return
	}
	env := r.invEnv(fr, st)
	for _, cl := range ls.Invs {
		env.what = fmt.Sprintf("%s loop %d invariant %s", relName(fr.fn), l.ordinal, cl.Label)
		r.assume(r.evalBool(cl.E, env))
	}
}

// havocLoop forgets everything the loop body may change.
func (r *FnRun) havocLoop(fr *Frame, st *State, l *loopT) {
	ms := r.e.loopMods(fr.fn, l, r)
	if ls := r.loopSpec(fr, l); ls != nil && len(ls.Modifies) > 0 {
		// explicit frame given in the contract: trust nothing, check nothing —
		// it only narrows the heap part; cells are always inferred
		env := r.invEnv(fr, st)
		for _, m := range ls.Modifies {
			r.havocTarget(st, m.E, env)
		}
		r.note("%s loop %d: explicit heap frame from the contract (assumed)", relName(fr.fn), l.ordinal)
	} else if ms.all {
		r.havocAll(st)
		for _, g := range r.e.cs.Ghosts {
			old := r.ghostTerm(st, g)
			st.ghost[g.Name] = r.fresh("G_"+g.Name, old.Sort)
		}
	} else {
		for _, kp := range ms.sortedKeys() {
			r.havocInferred(st, kp)
		}
		for g := range ms.ghosts {
			if gd, ok := r.e.cs.Ghosts[g]; ok {
				old := r.ghostTerm(st, gd)
				st.ghost[g] = r.fresh("G_"+g, old.Sort)
			}
		}
	}
	// earlier iterations may have allocated
	nt := r.fresh("top", SInt)
	r.assume(Ge(nt, st.top))
	st.top = nt
	// local cells assigned in the loop
	for v, val := range fr.vals {
		a, ok := v.(*ssa.Alloc)
		if !ok || !ms.allocs[a] {
			continue
		}
		if p, ok := val.(PtrVal); ok {
			switch p.Kind {
			case pkCell:
				st.cells[p.Cell] = r.freshVal(st, p.Cell.typ, "lp_"+p.Cell.name)
				r.boundedBy(st.top, st.cells[p.Cell]) // whatever it refers to exists
			case pkHeap:
				// a local that lives on the heap (its address escapes): forget its fields
				r.havocArgs(st, []Val{p})
			case pkArr:
				if at, ok := under(p.Elem).(*types.Array); ok {
					r.havocArgs(st, []Val{SliceVal{Base: p.Base, Off: r.idxLit(0), Len: r.idxLit(at.Len()), Cap: r.idxLit(at.Len()), Elem: at.Elem()}})
				}
			}
		}
	}
	r.havocEscaped(st)
	r.havocIters(fr, st, l)
	// linear bookkeeping cannot be carried through a loop cut; see linear.go
	r.linearLoopCut(st)
}

var _ = fmt.Sprintf
