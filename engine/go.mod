module vcgo

go 1.26.5

require golang.org/x/tools v0.45.0

require (
	golang.org/x/mod v0.36.0 // indirect
	golang.org/x/sync v0.20.0 // indirect
)
