package grpcclients

// BOUNDED STAND-IN (not a proof). casBlobAccess.FindMissing partitions the
// request through a map keyed by digest.Function (a two-field struct); maps
// with composite keys are outside the contract verifier's subset, so the
// client half of C14's "FindMissingBlobs returns exactly the subset the
// backend reports missing" is checked here by exhaustive execution of the REAL
// client code against a fake ContentAddressableStorageClient: every subset of
// a universe of six digests (two instance names, two digest functions) is
// requested against every subset the fake server reports missing, and once
// against a server that fails for one of the digest functions.

import (
	"context"
	"fmt"
	"sort"
	"testing"

	remoteexecution "github.com/bazelbuild/remote-apis/build/bazel/remote/execution/v2"
	"github.com/buildbarn/bb-storage/pkg/digest"

	"google.golang.org/grpc"
	"google.golang.org/grpc/codes"
	"google.golang.org/grpc/status"
)

type bFakeCAS struct {
	remoteexecution.ContentAddressableStorageClient
	missing map[string]bool // keyed by "instance|function|hash|size"
	failFor remoteexecution.DigestFunction_Value
	asked   map[string]int
}

func bKey(instance string, fn remoteexecution.DigestFunction_Value, d *remoteexecution.Digest) string {
	return fmt.Sprintf("%s|%d|%s|%d", instance, fn, d.GetHash(), d.GetSizeBytes())
}

func (f *bFakeCAS) FindMissingBlobs(ctx context.Context, in *remoteexecution.FindMissingBlobsRequest, opts ...grpc.CallOption) (*remoteexecution.FindMissingBlobsResponse, error) {
	if f.failFor != remoteexecution.DigestFunction_UNKNOWN && in.DigestFunction == f.failFor {
		return nil, status.Error(codes.Unavailable, "server unavailable")
	}
	var out []*remoteexecution.Digest
	for _, d := range in.BlobDigests {
		k := bKey(in.InstanceName, in.DigestFunction, d)
		f.asked[k]++
		if f.missing[k] {
			out = append(out, d)
		}
	}
	return &remoteexecution.FindMissingBlobsResponse{MissingBlobDigests: out}, nil
}

func TestBoundedClientFindMissing(t *testing.T) {
	md5, sha := remoteexecution.DigestFunction_MD5, remoteexecution.DigestFunction_SHA256
	h1, h2 := "8b1a9953c4611296a827abf8c47804d7", "00000000000000000000000000000000"
	s1 := "185f8db32271fe25f561a6fc938b2e264306ec304eda518007d1764826381969"
	type item struct {
		instance string
		fn       remoteexecution.DigestFunction_Value
		hash     string
		size     int64
	}
	universe := []item{{"a", md5, h1, 5}, {"a", md5, h2, 0}, {"a", sha, s1, 7}, {"b", md5, h1, 5}, {"b", sha, s1, 7}, {"", md5, h2, 3}}
	n := len(universe)
	key := func(it item) string {
		return bKey(it.instance, it.fn, &remoteexecution.Digest{Hash: it.hash, SizeBytes: it.size})
	}
	evals, fails := 0, 0
	violation := func(format string, a ...interface{}) {
		fails++
		if fails <= 5 {
			t.Errorf("BOUNDED-VIOLATION "+format, a...)
		}
	}
	for req := 0; req < 1<<n; req++ {
		sb := digest.NewSetBuilder(0)
		for i, it := range universe {
			if req&(1<<i) != 0 {
				sb.Add(digest.MustNewDigest(it.instance, it.fn, it.hash, it.size))
			}
		}
		set := sb.Build()
		for miss := 0; miss < 1<<n; miss++ {
			evals++
			fake := &bFakeCAS{missing: map[string]bool{}, asked: map[string]int{}}
			var want []string
			for i, it := range universe {
				if miss&(1<<i) != 0 {
					fake.missing[key(it)] = true
					if req&(1<<i) != 0 {
						want = append(want, digest.MustNewDigest(it.instance, it.fn, it.hash, it.size).String())
					}
				}
			}
			sort.Strings(want)
			in := fmt.Sprintf("requested %06b, server lacks %06b", req, miss)
			func() {
				defer func() {
					if x := recover(); x != nil {
						violation("panic: %v input=%q", x, in)
					}
				}()
				got, err := findMissingBlobsInternal(context.Background(), set, fake)
				if err != nil {
					violation("unexpected error %v input=%q", err, in)
					return
				}
				var gs []string
				for _, d := range got.Items() {
					gs = append(gs, d.String())
				}
				if fmt.Sprint(gs) != fmt.Sprint(want) {
					violation("reports %v missing, the server said %v input=%q", gs, want, in)
				}
				for i, it := range universe {
					if c := fake.asked[key(it)]; (req&(1<<i) != 0) != (c == 1) {
						violation("digest %d was asked about %d times input=%q", i, c, in)
					}
				}
			}()
		}
		// a server that fails for one digest function: the failure is surfaced
		// whenever a digest of that function was requested
		for _, ff := range []remoteexecution.DigestFunction_Value{md5, sha} {
			evals++
			fake := &bFakeCAS{missing: map[string]bool{}, asked: map[string]int{}, failFor: ff}
			requested := false
			for i, it := range universe {
				if req&(1<<i) != 0 && it.fn == ff {
					requested = true
				}
			}
			_, err := findMissingBlobsInternal(context.Background(), set, fake)
			if requested != (err != nil) {
				violation("server failure for function %v: error %v input=%q", ff, err, fmt.Sprintf("requested %06b", req))
			} else if err != nil && status.Code(err) != codes.Unavailable {
				violation("server failure reported with code %v input=%q", status.Code(err), fmt.Sprintf("requested %06b", req))
			}
		}
	}
	fmt.Printf("BOUNDED-EVALUATIONS %d FindMissing through the gRPC client (returns exactly what the server reports missing of what was asked; every digest asked about once; server failures surfaced)\n", evals)
}
