package digest

// BOUNDED STAND-IN (not a proof). The contracts on ExistenceCache decide one
// call at a time (an object is hidden only if an entry stamped recently enough
// exists; Add stamps with the current reading). That, over whole histories and
// with the real LRU / FIFO eviction sets behind it, "an existence cache never
// hides an object as present unless it was added within the configured
// duration" — for cache sizes down to 1 and arbitrary clock advances — is a
// statement about sequences of calls and about the eviction set (an assumed
// interface for the contracts). This file is injected into the package through
// a build overlay by /verif's check and runs the REAL cache exhaustively over
// every sequence of up to 5 operations drawn from: add {d0}, add {d1},
// add {d0,d1}, ask about {d0,d1}, advance the clock by 1, by the duration, by
// the duration + 1 — with cache sizes 1 and 2 and both eviction policies.

import (
	"context"
	"fmt"
	"testing"
	"time"

	remoteexecution "github.com/bazelbuild/remote-apis/build/bazel/remote/execution/v2"
	"github.com/buildbarn/bb-storage/pkg/clock"
	"github.com/buildbarn/bb-storage/pkg/eviction"
)

type bClock struct{ now time.Time }

func (c *bClock) Now() time.Time { return c.now }
func (c *bClock) NewContextWithTimeout(parent context.Context, timeout time.Duration) (context.Context, context.CancelFunc) {
	return context.WithCancel(parent)
}
func (c *bClock) NewTimer(d time.Duration) (clock.Timer, <-chan time.Time)   { return nil, nil }
func (c *bClock) NewTicker(d time.Duration) (clock.Ticker, <-chan time.Time) { return nil, nil }

func TestBoundedExistenceCache(t *testing.T) {
	const duration = 10 * time.Second
	ds := []Digest{
		MustNewDigest("a", remoteexecution.DigestFunction_MD5, "8b1a9953c4611296a827abf8c47804d7", 5),
		MustNewDigest("a", remoteexecution.DigestFunction_MD5, "00000000000000000000000000000000", 7),
	}
	both := NewSetBuilder(2).Add(ds[0]).Add(ds[1]).Build()
	sets := []Set{ds[0].ToSingletonSet(), ds[1].ToSingletonSet(), both}
	advances := []time.Duration{time.Second, duration, duration + time.Second}
	const nOps = 7 // 0..2 add sets[i]; 3 ask; 4..6 advance
	evals, fails := 0, 0
	violation := func(format string, a ...interface{}) {
		fails++
		if fails <= 5 {
			t.Errorf("BOUNDED-VIOLATION "+format, a...)
		}
	}
	policies := map[string]func() eviction.Set[string]{
		"lru":  func() eviction.Set[string] { return eviction.NewLRUSet[string]() },
		"fifo": func() eviction.Set[string] { return eviction.NewFIFOSet[string]() },
	}
	for pname, mkSet := range policies {
		for _, size := range []int{1, 2} {
			for length := 1; length <= 5; length++ {
				seq := make([]int, length)
				for {
					// run the sequence against the real cache and a model: when each
					// digest was last added
					func() {
						defer func() {
							if x := recover(); x != nil {
								violation("panic: %v input=%q", x, fmt.Sprintf("%s size=%d ops=%v", pname, size, seq))
							}
						}()
						clk := &bClock{now: time.Unix(1000, 0)}
						cache := NewExistenceCache(clk, KeyWithInstance, size, duration, mkSet())
						lastAdded := map[int]time.Time{}
						for step, op := range seq {
							switch {
							case op <= 2:
								cache.Add(sets[op])
								for i := range ds {
									if op == i || op == 2 {
										lastAdded[i] = clk.now
									}
								}
							case op == 3:
								evals++
								missing := cache.RemoveExisting(both)
								present := map[string]bool{}
								for _, d := range missing.Items() {
									present[d.String()] = true
								}
								if missing.Length() > 2 {
									violation("asked about 2 digests, got %d back input=%q", missing.Length(), fmt.Sprintf("%s size=%d ops=%v step=%d", pname, size, seq, step))
								}
								for i, d := range ds {
									hidden := !present[d.String()]
									at, ever := lastAdded[i]
									if hidden && (!ever || clk.now.Sub(at) > duration) {
										violation("digest %d hidden although it was not added within the duration (last added: %v, ever: %v, now: %v) input=%q",
											i, at.Unix(), ever, clk.now.Unix(), fmt.Sprintf("%s size=%d ops=%v step=%d", pname, size, seq, step))
									}
								}
								hiddenCount := 2 - missing.Length()
								if hiddenCount > size {
									violation("%d digests hidden by a cache of size %d input=%q", hiddenCount, size, fmt.Sprintf("%s size=%d ops=%v step=%d", pname, size, seq, step))
								}
							default:
								clk.now = clk.now.Add(advances[op-4])
							}
						}
					}()
					// next sequence
					j := 0
					for j < length {
						seq[j]++
						if seq[j] < nOps {
							break
						}
						seq[j] = 0
						j++
					}
					if j == length {
						break
					}
				}
			}
		}
	}
	fmt.Printf("BOUNDED-EVALUATIONS %d existence-cache histories (never hides an object that was not added within the duration; never hides more than its size)\n", evals)
}
