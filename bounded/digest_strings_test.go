package digest

// BOUNDED STAND-IN (not a proof). The character-level string processing of
// pkg/digest — where the instance name starts inside the packed digest string,
// how keys are cut out of it, how ancestor chains and patched names are built,
// how resource names are formatted and parsed, how the trie splits names into
// components — is outside the reach of the contract verifier (strings are an
// abstract sort there). This file is injected into the package through a build
// overlay by /verif's check and exercises the REAL functions exhaustively over
// a small, stated space, against specifications written independently of the
// code with strings.Split / strings.Join only:
//
//   instance names: every string over the alphabet {a, b, -, /} of length 0..6
//   (valid and invalid), plus names made of reserved keywords and two longer ones;
//   digests: two digest functions (MD5, SHA256), two hashes each, sizes {0, 5, 123};
//   resource names: every sequence of 0..6 components over a vocabulary of 9.
//
// Output protocol: "BOUNDED-EVALUATIONS <n>" lines are summed by the checker;
// a "BOUNDED-VIOLATION <what> input=<...>" line is a violation with its input.

import (
	"bytes"
	"fmt"
	"os"
	"strings"
	"testing"

	remoteexecution "github.com/bazelbuild/remote-apis/build/bazel/remote/execution/v2"
	"github.com/google/uuid"
)

type bReport struct {
	t     *testing.T
	evals int
	fails int
}

// bDeeper: the thorough tier (VERIF_TIER=thorough) raises every length bound by one.
func bDeeper() int {
	if os.Getenv("VERIF_TIER") == "thorough" {
		return 1
	}
	return 0
}

func (r *bReport) violation(format string, a ...interface{}) {
	r.fails++
	if r.fails <= 5 {
		r.t.Errorf("BOUNDED-VIOLATION "+format, a...)
	}
}

func (r *bReport) done(what string) {
	fmt.Printf("BOUNDED-EVALUATIONS %d %s\n", r.evals, what)
}

// guard runs f and reports a panic as a violation.
func (r *bReport) guard(what string, input interface{}, f func()) {
	defer func() {
		if x := recover(); x != nil {
			r.violation("%s panicked: %v input=%q", what, x, fmt.Sprint(input))
		}
	}()
	f()
}

func bAllStrings(alphabet string, maxLen int) []string {
	out := []string{""}
	prev := []string{""}
	for l := 1; l <= maxLen; l++ {
		var next []string
		for _, p := range prev {
			for _, c := range alphabet {
				next = append(next, p+string(c))
			}
		}
		out = append(out, next...)
		prev = next
	}
	return out
}

var bReserved = []string{"blobs", "uploads", "actions", "actionResults", "operations", "capabilities", "compressed-blobs"}

// bValidName is the specification of a valid instance name: no empty
// component, no reserved keyword.
func bValidName(s string) bool {
	if s == "" {
		return true
	}
	for _, c := range strings.Split(s, "/") {
		if c == "" {
			return false
		}
		for _, k := range bReserved {
			if c == k {
				return false
			}
		}
	}
	return true
}

func bNames() (valid, invalid []string) {
	all := bAllStrings("ab-/", 6+bDeeper())
	all = append(all, "hello/world-wide/x", "acme-internal/team-a/ci-1")
	for _, k := range bReserved {
		all = append(all, k, "a/"+k, k+"/a", "a/"+k+"/b", k+"x", "x"+k)
	}
	for _, s := range all {
		if bValidName(s) {
			valid = append(valid, s)
		} else {
			invalid = append(invalid, s)
		}
	}
	return
}

type bDigestParts struct {
	name string
	fn   remoteexecution.DigestFunction_Value
	hash string
	size int64
}

var bHashes = map[remoteexecution.DigestFunction_Value][]string{
	remoteexecution.DigestFunction_MD5:    {"8b1a9953c4611296a827abf8c47804d7", "00000000000000000000000000000000"},
	remoteexecution.DigestFunction_SHA256: {"185f8db32271fe25f561a6fc938b2e264306ec304eda518007d1764826381969", "00000000000000000000000000000000000000000000000000000000000000ff"},
}

func bDigests(names []string) (parts []bDigestParts, ds []Digest) {
	for _, n := range names {
		for fn, hs := range bHashes {
			for _, h := range hs {
				for _, sz := range []int64{0, 5, 123} {
					parts = append(parts, bDigestParts{n, fn, h, sz})
					ds = append(ds, MustNewDigest(n, fn, h, sz))
				}
			}
		}
	}
	return
}

func TestBoundedInstanceNames(t *testing.T) {
	r := &bReport{t: t}
	valid, invalid := bNames()
	for _, s := range valid {
		s := s
		r.guard("NewInstanceName", s, func() {
			r.evals++
			in, err := NewInstanceName(s)
			if err != nil {
				r.violation("valid instance name rejected: %v input=%q", err, s)
				return
			}
			if in.String() != s {
				r.violation("instance name changed: %q input=%q", in.String(), s)
			}
			var want []string
			if s != "" {
				want = strings.Split(s, "/")
			}
			if got := in.GetComponents(); strings.Join(got, "\x00") != strings.Join(want, "\x00") {
				r.violation("components %q, want %q input=%q", got, want, s)
			}
			if in2, err := NewInstanceNameFromComponents(want); err != nil || in2 != in {
				r.violation("NewInstanceNameFromComponents does not invert GetComponents input=%q", s)
			}
		})
	}
	for _, s := range invalid {
		s := s
		r.guard("NewInstanceName", s, func() {
			r.evals++
			if _, err := NewInstanceName(s); err == nil {
				r.violation("invalid instance name accepted input=%q", s)
			}
		})
	}
	r.done("instance names (valid accepted and unchanged, invalid rejected, components)")
}

func TestBoundedDigestAccessorsAndChains(t *testing.T) {
	r := &bReport{t: t}
	valid, _ := bNames()
	parts, ds := bDigests(valid)
	for i, d := range ds {
		p, d := parts[i], d
		r.guard("digest accessors", p, func() {
			r.evals++
			if d.GetInstanceName().String() != p.name || d.GetSizeBytes() != p.size || d.GetHashString() != p.hash ||
				d.GetDigestFunction().GetEnumValue() != p.fn {
				r.violation("accessors disagree with what the digest was built from: got (%q, %d, %q) input=%q",
					d.GetInstanceName().String(), d.GetSizeBytes(), d.GetHashString(), fmt.Sprint(p))
			}
			// the ancestor chain is exactly the chain of component prefixes
			var want []string
			want = append(want, "")
			if p.name != "" {
				comps := strings.Split(p.name, "/")
				for k := 1; k <= len(comps); k++ {
					want = append(want, strings.Join(comps[:k], "/"))
				}
			}
			chain := d.GetDigestsWithParentInstanceNames()
			if len(chain) != len(want) {
				r.violation("ancestor chain has %d entries, want %d input=%q", len(chain), len(want), fmt.Sprint(p))
				return
			}
			for k, c := range chain {
				if c != MustNewDigest(want[k], p.fn, p.hash, p.size) {
					r.violation("ancestor %d is %q, want instance name %q input=%q", k, c.String(), want[k], fmt.Sprint(p))
				}
			}
			// proto and compact binary round trips
			if d2, err := d.GetDigestFunction().NewDigestFromProto(d.GetProto()); err != nil || d2 != d {
				r.violation("proto round trip input=%q", fmt.Sprint(p))
			}
			if d2, err := d.GetInstanceName().NewDigestFromCompactBinary(bytes.NewBuffer(d.GetCompactBinary())); err != nil || d2 != d {
				r.violation("compact binary round trip input=%q", fmt.Sprint(p))
			}
		})
	}
	r.done("digest accessors, ancestor chains, proto and compact-binary round trips")
}

func TestBoundedDigestKeys(t *testing.T) {
	r := &bReport{t: t}
	// keys of two digests are equal exactly when the digests agree on function,
	// hash, size and (for instance-aware keys) instance name
	names := bAllStrings("ab-/", 4+bDeeper())
	names = append(names, "acme-internal", "acme", "org/team-a", "org/team", "a-b/c-d", "a-b/c", "a/b-c")
	var valid []string
	for _, n := range names {
		if bValidName(n) {
			valid = append(valid, n)
		}
	}
	parts, ds := bDigests(valid)
	with := map[string]int{}
	without := map[string]bDigestParts{}
	for i, d := range ds {
		p := parts[i]
		r.guard("GetKey", p, func() {
			r.evals++
			kw := d.GetKey(KeyWithInstance)
			if j, ok := with[kw]; ok && parts[j] != p {
				r.violation("two different digests share the instance-aware key %q: %q input=%q", kw, fmt.Sprint(parts[j]), fmt.Sprint(p))
			}
			with[kw] = i
			ko := d.GetKey(KeyWithoutInstance)
			if q, ok := without[ko]; ok && (q.fn != p.fn || q.hash != p.hash || q.size != p.size) {
				r.violation("digests of different content share the instance-less key %q: %q input=%q", ko, fmt.Sprint(q), fmt.Sprint(p))
			}
			without[ko] = p
			// and the other direction: same content, any instance name, same key
			if ko != MustNewDigest("", p.fn, p.hash, p.size).GetKey(KeyWithoutInstance) {
				r.violation("instance-less key depends on the instance name input=%q", fmt.Sprint(p))
			}
		})
	}
	r.done("digest keys (equal exactly when function, hash, size and — where asked — instance name agree)")
}

func TestBoundedResourceNameRoundTrips(t *testing.T) {
	r := &bReport{t: t}
	valid, _ := bNames()
	var sample []string
	for i, n := range valid {
		if len(n) <= 4 || i%7 == 0 {
			sample = append(sample, n)
		}
	}
	parts, ds := bDigests(sample)
	u := uuid.MustParse("36ebab65-3c4f-4faf-818b-2eabb4cd1b02")
	for i, d := range ds {
		p, d := parts[i], d
		for _, c := range []remoteexecution.Compressor_Value{remoteexecution.Compressor_IDENTITY, remoteexecution.Compressor_ZSTD} {
			c := c
			r.guard("ByteStream path round trip", p, func() {
				r.evals++
				rp := d.GetByteStreamReadPath(c)
				if d2, c2, err := NewDigestFromByteStreamReadPath(rp); err != nil || d2 != d || c2 != c {
					r.violation("read path %q parses to (%q, %v, %v) input=%q", rp, d2.String(), c2, err, fmt.Sprint(p))
				}
				wp := d.GetByteStreamWritePath(u, c)
				if d2, c2, err := NewDigestFromByteStreamWritePath(wp); err != nil || d2 != d || c2 != c {
					r.violation("write path %q parses to (%q, %v, %v) input=%q", wp, d2.String(), c2, err, fmt.Sprint(p))
				}
			})
		}
	}
	r.done("ByteStream read/write resource names (format then parse yields the same digest and compressor)")
}

func TestBoundedResourceNameParsersNeverPanic(t *testing.T) {
	r := &bReport{t: t}
	vocab := []string{"blobs", "compressed-blobs", "uploads", "zstd", "blake3", "a",
		"8b1a9953c4611296a827abf8c47804d7", "5", "-1"}
	var walk func(prefix []string, depth int)
	walk = func(prefix []string, depth int) {
		p := strings.Join(prefix, "/")
		for _, variant := range []string{p, "/" + p, p + "/"} {
			variant := variant
			r.guard("NewDigestFromByteStreamReadPath", variant, func() {
				r.evals++
				d, _, err := NewDigestFromByteStreamReadPath(variant)
				if err == nil && d == BadDigest {
					r.violation("read path accepted but no digest input=%q", variant)
				}
			})
			r.guard("NewDigestFromByteStreamWritePath", variant, func() {
				r.evals++
				d, _, err := NewDigestFromByteStreamWritePath(variant)
				if err == nil && d == BadDigest {
					r.violation("write path accepted but no digest input=%q", variant)
				}
			})
		}
		if depth == 0 {
			return
		}
		for _, v := range vocab {
			walk(append(append([]string(nil), prefix...), v), depth-1)
		}
	}
	walk(nil, 6+bDeeper())
	// malformed hashes and sizes are rejected
	fn := MustNewFunction("a", remoteexecution.DigestFunction_MD5)
	for _, h := range []string{"", "8b1a9953c4611296a827abf8c47804d", "8b1a9953c4611296a827abf8c47804d7a", "8B1A9953C4611296A827ABF8C47804D7", "8b1a9953c4611296a827abf8c47804dg", "8b1a9953c4611296a827abf8c47804d "} {
		h := h
		r.guard("NewDigest", h, func() {
			r.evals++
			if _, err := fn.NewDigest(h, 5); err == nil {
				r.violation("malformed hash accepted input=%q", h)
			}
		})
	}
	for _, sz := range []int64{-1, -5, -9223372036854775808} {
		sz := sz
		r.guard("NewDigest", sz, func() {
			r.evals++
			if _, err := fn.NewDigest("8b1a9953c4611296a827abf8c47804d7", sz); err == nil {
				r.violation("negative size accepted input=%q", fmt.Sprint(sz))
			}
		})
	}
	// compact binaries: every function byte, a zero hash of every length 0..33,
	// every one- and two-byte size: what is accepted is a well-formed digest
	in, _ := NewInstanceName("a")
	for fb := 0; fb < 12; fb++ {
		for hl := 0; hl <= 33; hl++ {
			for s1 := 0; s1 < 256; s1 += 1 {
				enc := append(append([]byte{byte(fb)}, make([]byte, hl)...), byte(s1))
				if s1 >= 0x80 {
					enc = append(enc, 0x01)
				}
				r.guard("NewDigestFromCompactBinary", enc, func() {
					r.evals++
					d, err := in.NewDigestFromCompactBinary(bytes.NewBuffer(enc))
					if err != nil {
						return
					}
					if d.GetSizeBytes() < 0 || strings.HasPrefix(d.GetKey(KeyWithoutInstance), "-") || d.GetInstanceName().String() != "a" ||
						!bytes.HasPrefix(enc, d.GetCompactBinary()) { // (the decoder reads from a stream: bytes after the digest are not its business)
						r.violation("compact binary accepted but the digest is degenerate: %q input=%x", d.String(), enc)
					}
				})
			}
		}
	}
	r.done("resource-name parsers on arbitrary component sequences (no panic, no accepted non-digest); malformed hashes, sizes and compact binaries rejected")
}

// bIsPrefix: p is a component-wise prefix of n.
func bIsPrefix(p, n string) bool {
	return p == "" || p == n || strings.HasPrefix(n, p+"/")
}

func TestBoundedTrieAndPatcher(t *testing.T) {
	r := &bReport{t: t}
	pool := []string{"", "a", "a/b", "a/b/c", "ab", "b", "a/bc"}
	queries := []string{}
	for _, n := range bAllStrings("abc/", 5+bDeeper()) {
		if bValidName(n) {
			queries = append(queries, n)
		}
	}
	mk := func(s string) InstanceName {
		in, err := NewInstanceName(s)
		if err != nil {
			t.Fatal(err)
		}
		return in
	}
	for mask := 0; mask < 1<<len(pool); mask++ {
		trie := NewInstanceNameTrie()
		reg := map[string]int{}
		for i, p := range pool {
			if mask&(1<<i) != 0 {
				trie.Set(mk(p), i)
				reg[p] = i
			}
		}
		check := func(stage string) {
			for _, q := range queries {
				q := q
				r.guard("InstanceNameTrie lookups", q, func() {
					r.evals++
					wantExact, wantLongest, bestLen := -1, -1, -1
					for p, v := range reg {
						if p == q {
							wantExact = v
						}
						if bIsPrefix(p, q) && len(p) > bestLen {
							bestLen, wantLongest = len(p), v
						}
					}
					in := mk(q)
					if got := trie.GetExact(in); got != wantExact {
						r.violation("%s: GetExact = %d, want %d registered=%v input=%q", stage, got, wantExact, reg, q)
					}
					if got := trie.GetLongestPrefix(in); got != wantLongest {
						r.violation("%s: GetLongestPrefix = %d, want %d registered=%v input=%q", stage, got, wantLongest, reg, q)
					}
					if got := trie.ContainsPrefix(in); got != (wantLongest >= 0) {
						r.violation("%s: ContainsPrefix = %v registered=%v input=%q", stage, got, reg, q)
					}
					if got := trie.ContainsExact(in); got != (wantExact >= 0) {
						r.violation("%s: ContainsExact = %v registered=%v input=%q", stage, got, reg, q)
					}
				})
			}
		}
		check("after insertion")
		// remove the registered names one by one, in pool order
		for i, p := range pool {
			if mask&(1<<i) == 0 {
				continue
			}
			delete(reg, p)
			var empty bool
			r.guard("InstanceNameTrie.Remove", p, func() { empty = trie.Remove(mk(p)) })
			if empty != (len(reg) == 0) {
				r.violation("Remove reported empty=%v with %d names left input=%q", empty, len(reg), p)
			}
			if mask%9 == 0 {
				check("after removing " + p)
			}
		}
	}
	// patching replaces a component-wise prefix and unpatching restores it
	for _, oldP := range []string{"", "a", "a/b", "ab"} {
		for _, newP := range []string{"", "x", "x/y", "a"} {
			patcher := NewInstanceNamePatcher(mk(oldP), mk(newP))
			back := NewInstanceNamePatcher(mk(newP), mk(oldP))
			for _, q := range queries {
				if !bIsPrefix(oldP, q) {
					continue
				}
				q := q
				r.guard("InstanceNamePatcher", q, func() {
					r.evals++
					rest := strings.TrimPrefix(strings.TrimPrefix(q, oldP), "/")
					want := newP
					if rest != "" {
						if want != "" {
							want += "/"
						}
						want += rest
					}
					if got := patcher.PatchInstanceName(mk(q)).String(); got != want {
						r.violation("PatchInstanceName(%q -> %q) = %q, want %q input=%q", oldP, newP, got, want, q)
					}
					d := MustNewDigest(q, remoteexecution.DigestFunction_MD5, "8b1a9953c4611296a827abf8c47804d7", 123)
					pd := patcher.PatchDigest(d)
					if pd != MustNewDigest(want, remoteexecution.DigestFunction_MD5, "8b1a9953c4611296a827abf8c47804d7", 123) {
						r.violation("PatchDigest(%q -> %q) = %q input=%q", oldP, newP, pd.String(), q)
					}
					if ud := patcher.UnpatchDigest(pd); ud != d {
						r.violation("UnpatchDigest does not restore: %q input=%q", ud.String(), q)
					}
					if bd := back.PatchDigest(pd); bd != d {
						r.violation("the reverse patcher does not restore: %q input=%q", bd.String(), q)
					}
				})
			}
		}
	}
	r.done("instance-name trie (insert, exact / longest-prefix / contains lookups, removal) and prefix patcher")
}
