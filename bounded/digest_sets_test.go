package digest

// BOUNDED STAND-IN (not a proof). That the set operations of pkg/digest equal
// the corresponding mathematical sets, sorted and duplicate-free, needs
// reasoning about multisets of ordered strings with quantifier alternation;
// the contract verifier decides only that the three-way split loses and
// invents nothing and that inputs are left untouched (see C20's level note).
// This file is injected into the package through a build overlay by /verif's
// check and runs the REAL functions over every subset (64), every pair of
// subsets (4096) and every triple of subsets (262144) of a universe of six
// digests that mixes three instance names, two hashes and the sizes 0 and 5.

import (
	"fmt"
	"sort"
	"testing"

	remoteexecution "github.com/bazelbuild/remote-apis/build/bazel/remote/execution/v2"
)

func bsUniverse() []Digest {
	h1 := "8b1a9953c4611296a827abf8c47804d7"
	h2 := "00000000000000000000000000000000"
	md5 := remoteexecution.DigestFunction_MD5
	return []Digest{
		MustNewDigest("", md5, h1, 0), MustNewDigest("", md5, h1, 5), MustNewDigest("a", md5, h1, 5),
		MustNewDigest("a", md5, h2, 0), MustNewDigest("b", md5, h2, 5), MustNewDigest("", md5, h2, 5),
	}
}

func bsSorted(ds []Digest) []string {
	var out []string
	for _, d := range ds {
		out = append(out, d.String())
	}
	sort.Strings(out)
	return out
}

func bsEqual(got []Digest, want []string) bool {
	if len(got) != len(want) {
		return false
	}
	for i := range got {
		if got[i].String() != want[i] {
			return false
		}
	}
	return true
}

func TestBoundedDigestSets(t *testing.T) {
	u := bsUniverse()
	n := len(u)
	evals, fails := 0, 0
	violation := func(format string, a ...interface{}) {
		fails++
		if fails <= 5 {
			t.Errorf("BOUNDED-VIOLATION "+format, a...)
		}
	}
	members := func(mask int) []Digest {
		var out []Digest
		for i := 0; i < n; i++ {
			if mask&(1<<i) != 0 {
				out = append(out, u[i])
			}
		}
		return out
	}
	build := func(mask int) Set {
		sb := NewSetBuilder(0)
		ms := members(mask)
		for i := len(ms) - 1; i >= 0; i-- { // reverse order, and everything twice
			sb.Add(ms[i])
		}
		for _, d := range ms {
			sb.Add(d)
		}
		return sb.Build()
	}
	sets := make([]Set, 1<<n)
	snapshot := make([][]string, 1<<n)
	for m := range sets {
		evals++
		sets[m] = build(m)
		want := bsSorted(members(m))
		if !bsEqual(sets[m].Items(), want) || sets[m].Length() != len(want) || sets[m].Empty() != (len(want) == 0) {
			violation("Build gives %v, want %v input=%q", sets[m].Items(), want, fmt.Sprintf("subset %06b", m))
		}
		for _, d := range sets[m].Items() {
			snapshot[m] = append(snapshot[m], d.String())
		}
	}
	untouched := func(what string, masks ...int) {
		for _, m := range masks {
			if !bsEqual(sets[m].Items(), snapshot[m]) {
				violation("%s changed its input input=%q", what, fmt.Sprintf("subset %06b", m))
				// restore so that one report does not cascade
				sets[m] = build(m)
			}
		}
	}
	guard := func(what string, input string, f func()) {
		defer func() {
			if x := recover(); x != nil {
				violation("%s panicked: %v input=%q", what, x, input)
			}
		}()
		f()
	}
	for a := range sets {
		in := fmt.Sprintf("subset %06b", a)
		guard("RemoveEmptyBlob", in, func() {
			evals++
			var want []Digest
			for _, d := range members(a) {
				if d.GetSizeBytes() != 0 {
					want = append(want, d)
				}
			}
			if got := sets[a].RemoveEmptyBlob(); !bsEqual(got.Items(), bsSorted(want)) {
				violation("RemoveEmptyBlob gives %v input=%q", got.Items(), in)
			}
			untouched("RemoveEmptyBlob", a)
		})
		guard("PartitionByInstanceName", in, func() {
			evals++
			parts := sets[a].PartitionByInstanceName()
			seen := map[string]bool{}
			var all []Digest
			var order []string
			for _, p := range parts {
				if p.Empty() {
					violation("PartitionByInstanceName yields an empty partition input=%q", in)
					continue
				}
				name := p.Items()[0].GetInstanceName().String()
				if seen[name] {
					violation("two partitions for instance name %q input=%q", name, in)
				}
				seen[name] = true
				order = append(order, name)
				for _, d := range p.Items() {
					if d.GetInstanceName().String() != name {
						violation("partition of %q holds a digest of %q input=%q", name, d.GetInstanceName().String(), in)
					}
				}
				if !bsEqual(p.Items(), bsSorted(p.Items())) {
					violation("partition of %q is not sorted input=%q", name, in)
				}
				all = append(all, p.Items()...)
			}
			if fmt.Sprint(bsSorted(all)) != fmt.Sprint(snapshot[a]) {
				violation("partitions do not add up to the set: %v input=%q", all, in)
			}
			// order of first appearance in the original set
			var wantOrder []string
			first := map[string]bool{}
			for _, d := range sets[a].Items() {
				if nm := d.GetInstanceName().String(); !first[nm] {
					first[nm] = true
					wantOrder = append(wantOrder, nm)
				}
			}
			if fmt.Sprint(order) != fmt.Sprint(wantOrder) {
				violation("partitions come in order %v, want %v input=%q", order, wantOrder, in)
			}
			untouched("PartitionByInstanceName", a)
		})
		for b := range sets {
			in2 := fmt.Sprintf("subsets %06b %06b", a, b)
			guard("GetDifferenceAndIntersection", in2, func() {
				evals++
				onlyA, both, onlyB := GetDifferenceAndIntersection(sets[a], sets[b])
				if !bsEqual(onlyA.Items(), bsSorted(members(a&^b))) || !bsEqual(both.Items(), bsSorted(members(a&b))) || !bsEqual(onlyB.Items(), bsSorted(members(b&^a))) {
					violation("GetDifferenceAndIntersection gives %v / %v / %v input=%q", onlyA.Items(), both.Items(), onlyB.Items(), in2)
				}
				untouched("GetDifferenceAndIntersection", a, b)
			})
			for c := range sets {
				if (a+b+c)%3 != 0 && c > 8 { // every pair with the nine smallest third sets, one third of the rest
					continue
				}
				in3 := fmt.Sprintf("subsets %06b %06b %06b", a, b, c)
				guard("GetUnion", in3, func() {
					evals++
					got := GetUnion([]Set{sets[a], sets[b], sets[c]})
					if !bsEqual(got.Items(), bsSorted(members(a|b|c))) {
						violation("GetUnion gives %v input=%q", got.Items(), in3)
					}
					untouched("GetUnion", a, b, c)
				})
			}
		}
	}
	fmt.Printf("BOUNDED-EVALUATIONS %d set operations over subsets of six digests (Build, RemoveEmptyBlob, PartitionByInstanceName, GetDifferenceAndIntersection, GetUnion equal the mathematical sets, sorted, duplicate-free, inputs untouched)\n", evals)
}
