package auth

// BOUNDED STAND-IN (not a proof). That combining authorizers with 'any' — in
// any nesting, built through NewAnyAuthorizer — grants exactly when a member
// grants and reports a member's failure instead of granting needs the
// members' decisions as a recursive specification function over the shape of
// the combination, with an existential witness carried through the in-place
// filter of anyAuthorizer.Authorize; the contract verifier decides only the
// memory safety and framing of that filter (see C18's level note). This file
// is injected into the package through a build overlay by /verif's check and
// runs the REAL constructor and the REAL Authorize exhaustively over:
//
//   shapes: every combination of up to 3 members where each member is a leaf
//   or a nested 'any' of 1..2 leaves (at most 4 leaves in total);
//   leaves: every assignment of {granted, denied, unavailable} to 2 instance names;
//   requests: both names, in both orders, and each name alone.
//
// Specification (over the leaves of the combination, whatever the nesting):
// the answer for a name is the verdict of one of the leaves; granted only if a
// leaf grants; denied if all leaves deny; granted if a leaf grants and none
// fails; a failure if a leaf fails and none grants; one answer per name, in
// request order; the caller's list of names is left as it was.

import (
	"context"
	"fmt"
	"testing"

	"github.com/buildbarn/bb-storage/pkg/digest"

	"google.golang.org/grpc/codes"
	"google.golang.org/grpc/status"
)

type bLeaf struct{ verdict map[string]codes.Code }

func (l bLeaf) Authorize(ctx context.Context, instanceNames []digest.InstanceName) []error {
	errs := make([]error, 0, len(instanceNames))
	for _, n := range instanceNames {
		switch c := l.verdict[n.String()]; c {
		case codes.OK:
			errs = append(errs, nil)
		default:
			errs = append(errs, status.Error(c, "verdict of a leaf"))
		}
	}
	return errs
}

var bVerdicts = []codes.Code{codes.OK, codes.PermissionDenied, codes.Unavailable}

func TestBoundedAnyAuthorizer(t *testing.T) {
	mk := func(s string) digest.InstanceName {
		in, err := digest.NewInstanceName(s)
		if err != nil {
			t.Fatal(err)
		}
		return in
	}
	var leaves []bLeaf
	for _, va := range bVerdicts {
		for _, vb := range bVerdicts {
			leaves = append(leaves, bLeaf{map[string]codes.Code{"a": va, "b/c": vb}})
		}
	}
	// shapes: a list of group sizes; size 0 means "a plain leaf", size k>0
	// means "a nested any of k leaves"
	var shapes [][]int
	var gen func(cur []int, leavesUsed int)
	gen = func(cur []int, leavesUsed int) {
		if len(cur) > 0 {
			shapes = append(shapes, append([]int(nil), cur...))
		}
		if len(cur) == 3 {
			return
		}
		for _, g := range []int{0, 1, 2} {
			use := g
			if g == 0 {
				use = 1
			}
			if leavesUsed+use <= 4 {
				gen(append(cur, g), leavesUsed+use)
			}
		}
	}
	gen(nil, 0)
	requests := [][]string{{"a", "b/c"}, {"b/c", "a"}, {"a"}, {"b/c"}, {}}

	evals, fails := 0, 0
	violation := func(format string, a ...interface{}) {
		fails++
		if fails <= 5 {
			t.Errorf("BOUNDED-VIOLATION "+format, a...)
		}
	}
	for _, shape := range shapes {
		nLeaves := 0
		for _, g := range shape {
			if g == 0 {
				nLeaves++
			} else {
				nLeaves += g
			}
		}
		idx := make([]int, nLeaves)
		for {
			// build the combination for this assignment
			var flat []bLeaf
			var members []Authorizer
			k := 0
			for _, g := range shape {
				if g == 0 {
					flat = append(flat, leaves[idx[k]])
					members = append(members, leaves[idx[k]])
					k++
				} else {
					var inner []Authorizer
					for j := 0; j < g; j++ {
						flat = append(flat, leaves[idx[k]])
						inner = append(inner, leaves[idx[k]])
						k++
					}
					members = append(members, NewAnyAuthorizer(inner))
				}
			}
			describe := func() string {
				s := fmt.Sprintf("shape=%v leaves=", shape)
				for _, l := range flat {
					s += fmt.Sprintf("[a:%v b/c:%v]", l.verdict["a"], l.verdict["b/c"])
				}
				return s
			}
			func() {
				defer func() {
					if x := recover(); x != nil {
						violation("panic: %v input=%q", x, describe())
					}
				}()
				combined := NewAnyAuthorizer(members)
				for _, req := range requests {
					evals++
					var in []digest.InstanceName
					for _, n := range req {
						in = append(in, mk(n))
					}
					before := append([]digest.InstanceName(nil), in...)
					errs := combined.Authorize(context.Background(), in)
					if len(errs) != len(req) {
						violation("%d answers for %d names input=%q request=%v", len(errs), len(req), describe(), req)
						continue
					}
					for i := range in {
						if in[i] != before[i] {
							violation("the caller's list of names was changed input=%q request=%v", describe(), req)
						}
					}
					for i, n := range req {
						got := status.Code(errs[i])
						anyGrants, anyFails, isSome := false, false, false
						for _, l := range flat {
							v := l.verdict[n]
							anyGrants = anyGrants || v == codes.OK
							anyFails = anyFails || v == codes.Unavailable
							isSome = isSome || v == got
						}
						switch {
						case !isSome:
							violation("answer %v for %q is no member's verdict input=%q request=%v", got, n, describe(), req)
						case got == codes.OK && !anyGrants:
							violation("granted %q although no member grants input=%q request=%v", n, describe(), req)
						case anyGrants && !anyFails && got != codes.OK:
							violation("%q not granted (%v) although a member grants and none fails input=%q request=%v", n, got, describe(), req)
						case !anyGrants && anyFails && got != codes.Unavailable:
							violation("a member's failure for %q was not reported (%v) input=%q request=%v", n, got, describe(), req)
						case !anyGrants && !anyFails && got != codes.PermissionDenied:
							violation("%q: all members deny but the answer is %v input=%q request=%v", n, got, describe(), req)
						}
					}
				}
			}()
			// next assignment
			j := 0
			for j < nLeaves {
				idx[j]++
				if idx[j] < len(leaves) {
					break
				}
				idx[j] = 0
				j++
			}
			if j == nLeaves {
				break
			}
		}
	}
	fmt.Printf("BOUNDED-EVALUATIONS %d nested 'any' combinations (grants exactly when a member grants, failures reported, one answer per name, names untouched)\n", evals)
}
